#!/bin/bash
# Build the overlay venv (offline): /venv packages + z3-solver, crosshair-tool, cvc5 from the wheelhouse.
# Serialised with a lock so that checks started concurrently after a fresh restore do not race.
set -e
cd "$(dirname "$0")"
ok() { [ -x .venv/bin/python ] && .venv/bin/python -c "import z3, pycparser, numpy, cffi, xobjects" 2>/dev/null; }
if ok; then exit 0; fi
exec 9>.venv.lock
flock 9
if ok; then exit 0; fi
rm -rf .venv
/venv/bin/python -m venv .venv
SP=$(.venv/bin/python -c "import site; print(site.getsitepackages()[0])")
printf "/venv/lib/python3.12/site-packages\n/repo\n" > "$SP/vx_overlay.pth"
PIP_NO_INDEX=1 .venv/bin/pip install -q --no-index --find-links /opt/veriftools/wheels z3-solver crosshair-tool cvc5 >/dev/null 2>&1 || \
PIP_NO_INDEX=1 .venv/bin/pip install -q --no-index --find-links /opt/veriftools/wheels z3-solver
.venv/bin/python -c "import z3, pycparser, numpy, cffi, xobjects; print('overlay venv ok', z3.get_version_string(), xobjects.__file__)"
