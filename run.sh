#!/bin/bash
# run.sh <property id> [quick|thorough] -- (re)builds the overlay venv if missing, then runs the check
# against /repo's working tree.  (Only tools/wt_run.sh sets VERIF_REPO/VERIF_OUT, to evaluate a seeded
# change in a scratch worktree without touching /repo or /verif/evidence.)
cd "$(dirname "$0")"
./setup.sh >/dev/null 2>&1 || { echo "HARNESS-ERROR setup failed"; exit 3; }
export VERIF_TIER="${2:-${VERIF_TIER:-quick}}"
export PYTHONDONTWRITEBYTECODE=1
if [ -n "$VERIF_REPO" ]; then export PYTHONPATH="$VERIF_REPO"; fi
exec .venv/bin/python -m checks.run "$1"
