#!/bin/bash
# run.sh <property id> [quick|thorough] -- (re)builds the overlay venv if missing, then runs the check
cd "$(dirname "$0")"
./setup.sh >/dev/null 2>&1 || { echo "HARNESS-ERROR setup failed"; exit 3; }
export VERIF_TIER="${2:-${VERIF_TIER:-quick}}"
export PYTHONDONTWRITEBYTECODE=1
exec .venv/bin/python -m checks.run "$1"
