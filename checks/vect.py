"""C16 (partial) -- vectorised blocks run once per index on every target.

Solver part.  For enumerated kernel templates the REAL `specialize_source`
output of the four targets is parsed (gcc -E -P + pycparser) and, per
`vectorize_over` block, the execution form is read off the AST:
    cpu     for (int v = I; v < lim; v++) { body }
    opencl  int v; v = f(get_global_id(0)); body...
    cuda    int v; v = g(blockDim.x, blockIdx.x, threadIdx.x); if (c(v)) { body }
The launch geometry is obtained by running the REAL `KernelCupy.__call__` and
`KernelPyopencl.__call__` on symbolic `n_threads` and block size (symx; `int`,
`np.ceil` and float division are modelled: S7, lemma L2).  z3 then proves, for
ALL n >= 0 and all block sizes: the set of indices executed is {0..n-1} on every
target, every index is executed exactly once per launch (the work-item -> index
map is injective), and nothing runs for n = 0.

Non-solver part (stated as such): which annotated lines are present in which
target, that unannotated lines pass through, that included files are spliced
only where named -- observed on the enumerated templates by locating marker
statements in the ASTs.
"""
import itertools
import json
import os
import subprocess
import tempfile
import types

import numpy as np
import z3
from pycparser import c_ast, c_parser

from vx import symx
from vx.symx import Engine, SymInt, SymReal, T, mk
from vx.report import Report, run_parallel, tier, seed

import xobjects as xo
from xobjects.specialize_source import specialize_source
import xobjects.context_cupy as xcupy
import xobjects.context_pyopencl as xocl

TARGETS = ("cpu_serial", "cpu_openmp", "opencl", "cuda")
NM = 8  # marker slots per index


# --------------------------------------------------------------------------
# templates: items = ("line", J, ctxs) | ("block", var, lim, [("line", J, ctxs) ...]) | ("include", fname, ctxs)
def render(template):
    name, items = template
    out = ["/*gpufun*/ void helper(/*gpuglmem*/ double* y, int k){ y[k] += 0; }", "", "/*gpukern*/", f"void {name}(const int n, /*gpuglmem*/ double* y, /*gpuglmem*/ double* z) {{"]
    for it in items:
        if it[0] == "line":
            _, J, ctxs = it
            out.append(f"    z[{J}] += 1;" + (f" //only_for_context {' '.join(ctxs)}" if ctxs else ""))
        elif it[0] == "block":
            _, var, lim, lines = it
            out.append(f"    for (int {var}=0; {var}<{lim}; {var}++){{ //vectorize_over {var} {lim}")
            for ln in lines:
                if ln[0] == "line":
                    _, J, ctxs = ln
                    out.append(f"        y[{var}*{NM} + {J}] += 1;" + (f" //only_for_context {' '.join(ctxs)}" if ctxs else ""))
                elif ln[0] == "nested":
                    _, J = ln
                    out.append(f"        if ({var} >= 0) {{ for (int q=0; q<1; q++) {{ y[{var}*{NM} + {J}] += 1; }} }}")
            out.append("    }//end_vectorize")
        elif it[0] in ("include", "includeblock"):
            _, fname, ctxs = it
            out.append(f"    //include_file {fname} for_context {' '.join(ctxs)}")
    out.append("}")
    return "\n".join(out) + "\n"


# the included file carries annotations of its own: a context-restricted line and a whole vectorised block
INC_TEXT = "    z[7] += 1;\n    z[6] += 1; //only_for_context cuda opencl\n"
INC_BLOCK = "    for (int qq=0; qq<n; qq++){ //vectorize_over qq n\n        y[qq*8 + 5] += 1;\n        y[qq*8 + 6] += 1; //only_for_context cpu_serial opencl\n    }//end_vectorize\n"


def templates():
    G = ("opencl", "cuda")
    C = ("cpu_serial", "cpu_openmp")
    return [
        ("t_single", [("block", "tid", "n", [("line", 0, None), ("line", 1, None)])]),
        ("t_two_blocks", [("block", "ii", "n", [("line", 0, None)]), ("block", "jj", "n", [("line", 1, None), ("line", 2, None)])]),
        ("t_outside", [("line", 0, None), ("block", "tid", "n", [("line", 0, None)]), ("line", 1, None)]),
        ("t_ctx_inside", [("block", "tid", "n", [("line", 0, None), ("line", 1, G), ("line", 2, C), ("line", 3, ("cuda",)), ("line", 4, ("cpu_openmp", "opencl"))])]),
        ("t_ctx_outside", [("line", 0, G), ("line", 1, ("cpu_serial",)), ("block", "tid", "n", [("line", 0, None)]), ("line", 2, ("opencl",))]),
        ("t_nested", [("block", "tid", "n", [("nested", 0), ("line", 1, None)])]),
        ("t_include", [("include", "inc_c16.h", ("cuda", "cpu_serial")), ("block", "tid", "n", [("line", 0, None)])]),
        ("t_include_block", [("block", "tid", "n", [("line", 0, None)]), ("includeblock", "incb_c16.h", ("cuda", "cpu_openmp", "opencl"))]),
        ("t_three", [("block", "a", "n", [("line", 0, ("cuda",))]), ("block", "b", "n", [("line", 1, None)]), ("block", "c", "n", [("line", 2, ("opencl", "cpu_openmp"))])]),
        # the bound of a block is an expression, not a bare identifier (M10-C16): CPU loop header and CUDA guard must carry it whole
        ("t_expr_lim", [("block", "ii", "n/2", [("line", 0, None)]), ("block", "jj", "n-1", [("line", 1, None), ("line", 2, G)])]),
        ("t_expr_lim2", [("line", 0, None), ("block", "kk", "(n+1)/3", [("line", 3, None)]), ("block", "tid", "n", [("line", 1, None)])]),
        # ... an expression whose operator binds less tightly than `<` (the bound must be taken as a whole)
        ("t_cond_lim", [("block", "ii", "n>2?n-2:0", [("line", 0, None)]), ("block", "tid", "n", [("line", 1, None)])]),
        # two blocks of one kernel that use the same index name (each block is a scope of its own on the CPU targets)
        ("t_same_index", [("block", "ii", "n", [("line", 0, None)]), ("line", 0, None), ("block", "ii", "n", [("line", 1, None), ("line", 2, G)])]),
    ]


# --------------------------------------------------------------------------
def preprocess(text, tgt):
    defs = ["-Drestrict=", "-Dinline=", "-Dstatic="]
    if tgt == "opencl":
        defs += ["-D__global=", "-D__kernel="]
    if tgt == "cuda":
        defs += ["-D__device__=", "-D__global__="]
    p = subprocess.run(["gcc", "-E", "-P", "-std=c99", "-"] + defs, input=text, capture_output=True, text=True)
    if p.returncode:
        raise ValueError("preprocessor: " + p.stderr[:200])
    return p.stdout


class Untranslatable(Exception):
    pass


def asint(x):
    return z3.If(x, z3.IntVal(1), z3.IntVal(0)) if z3.is_bool(x) else x


def asbool(x):
    return x if z3.is_bool(x) else x != 0


def ex(e, env):
    """C expression -> z3 term"""
    if isinstance(e, c_ast.Constant):
        return z3.IntVal(int(e.value.rstrip("uUlL"), 0))
    if isinstance(e, c_ast.ID):
        return env.setdefault(e.name, z3.Int(e.name))
    if isinstance(e, c_ast.StructRef):
        nm = f"{e.name.name}.{e.field.name}"
        return env.setdefault(nm, z3.Int(nm))
    if isinstance(e, c_ast.FuncCall) and isinstance(e.name, c_ast.ID) and e.name.name == "get_global_id":
        return env.setdefault("gid", z3.Int("gid"))
    if isinstance(e, c_ast.Cast):
        return ex(e.expr, env)
    if isinstance(e, c_ast.UnaryOp) and e.op == "-":
        return -ex(e.expr, env)
    if isinstance(e, c_ast.TernaryOp):
        return z3.If(asbool(ex(e.cond, env)), asint(ex(e.iftrue, env)), asint(ex(e.iffalse, env)))
    if isinstance(e, c_ast.BinaryOp):
        a, b = ex(e.left, env), ex(e.right, env)
        # C: the result of a comparison is an int (0/1), the operands of && and || are tested against 0
        a, b = (asbool(a), asbool(b)) if e.op in ("&&", "||") else (asint(a), asint(b))
        ops = {"+": lambda: a + b, "-": lambda: a - b, "*": lambda: a * b, "<": lambda: a < b, "<=": lambda: a <= b, ">": lambda: a > b, ">=": lambda: a >= b, "==": lambda: a == b, "!=": lambda: a != b, "&&": lambda: z3.And(a, b), "||": lambda: z3.Or(a, b), "/": lambda: a / b, "%": lambda: a % b}
        if e.op in ops:
            return ops[e.op]()
    raise Untranslatable(type(e).__name__ + " " + getattr(e, "op", ""))


class Markers(c_ast.NodeVisitor):
    """marker statements `y[v*NM + J] += 1` (inside blocks) and `z[J] += 1` (outside)"""

    def __init__(self):
        self.y = []
        self.z = []
        self.assigned = set()

    def visit_Assignment(self, node):
        lv = node.lvalue
        if isinstance(lv, c_ast.ID):
            self.assigned.add(lv.name)
        if node.op == "+=" and isinstance(lv, c_ast.ArrayRef) and isinstance(lv.name, c_ast.ID):
            sub = lv.subscript
            if lv.name.name == "z" and isinstance(sub, c_ast.Constant):
                self.z.append(int(sub.value))
            if lv.name.name == "y" and isinstance(sub, c_ast.BinaryOp) and sub.op == "+" and isinstance(sub.right, c_ast.Constant):
                var = sub.left.left.name if isinstance(sub.left, c_ast.BinaryOp) and isinstance(sub.left.left, c_ast.ID) else "?"
                self.y.append((var, int(sub.right.value)))
        self.generic_visit(node)

    def visit_UnaryOp(self, node):
        if node.op in ("p++", "++", "p--", "--") and isinstance(node.expr, c_ast.ID):
            self.assigned.add(node.expr.name)
        self.generic_visit(node)


def markers_of(nodes):
    m = Markers()
    for n in nodes:
        if n is not None:
            m.visit(n)
    return m


def analyse_kernel(fdef, tgt):
    """-> (blocks, outside z-markers); block = dict(var, kind, forms..., ymarkers)"""
    items = list(fdef.body.block_items or [])
    blocks = []
    outside = []
    k = 0
    while k < len(items):
        it = items[k]
        env = {}
        if isinstance(it, c_ast.For) and isinstance(it.init, c_ast.DeclList) and len(it.init.decls) == 1 and tgt.startswith("cpu"):
            d = it.init.decls[0]
            var = d.name
            b = dict(var=var, kind="for", env=env)
            b["init"] = ex(d.init, env)
            b["cond"] = asbool(ex(it.cond, env))
            nx = it.next
            b["step_ok"] = isinstance(nx, c_ast.UnaryOp) and nx.op in ("p++", "++") and isinstance(nx.expr, c_ast.ID) and nx.expr.name == var
            mk_ = markers_of([it.stmt])
            b["ym"] = mk_.y
            b["zm_inside"] = mk_.z
            b["var_modified"] = var in mk_.assigned
            blocks.append(b)
            k += 1
            continue
        sub = list(it.block_items or []) if isinstance(it, c_ast.Compound) else []
        if not tgt.startswith("cpu") and len(sub) >= 2 and isinstance(sub[0], c_ast.Decl) and sub[0].init is None and isinstance(sub[1], c_ast.Assignment) and isinstance(sub[1].lvalue, c_ast.ID) and sub[1].lvalue.name == sub[0].name:
            # the block is a scope of its own: { int v; v = ...; [if (guard) {] body [}] }
            var = sub[0].name
            b = dict(var=var, env=env)
            b["vexpr"] = ex(sub[1].rvalue, env)
            if tgt == "cuda":
                b["kind"] = "cuda"
                nxt = sub[2] if len(sub) > 2 else None
                if isinstance(nxt, c_ast.If) and nxt.iffalse is None and len(sub) == 3:
                    b["guard"] = asbool(ex(nxt.cond, env))
                    body = [nxt.iftrue]
                else:
                    b["guard"] = z3.BoolVal(True)
                    body = sub[2:]
            else:
                b["kind"] = "opencl"
                body = sub[2:]
            mk_ = markers_of(body)
            b["ym"] = mk_.y
            b["zm_inside"] = mk_.z
            b["var_modified"] = var in mk_.assigned
            blocks.append(b)
            k += 1
            continue
        if isinstance(it, c_ast.Decl) and it.init is None and k + 1 < len(items) and isinstance(items[k + 1], c_ast.Assignment) and isinstance(items[k + 1].lvalue, c_ast.ID) and items[k + 1].lvalue.name == it.name and not tgt.startswith("cpu"):
            var = it.name
            asg = items[k + 1]
            b = dict(var=var, env=env)
            b["vexpr"] = ex(asg.rvalue, env)
            if tgt == "cuda":
                b["kind"] = "cuda"
                nxt = items[k + 2] if k + 2 < len(items) else None
                if isinstance(nxt, c_ast.If) and nxt.iffalse is None:
                    b["guard"] = asbool(ex(nxt.cond, env))
                    body = [nxt.iftrue]
                    k += 3
                else:
                    b["guard"] = z3.BoolVal(True)
                    body = []
                    k += 2
            else:
                b["kind"] = "opencl"
                # body: the statements up to the next block start / end of function
                j = k + 2
                body = []
                while j < len(items) and not (isinstance(items[j], c_ast.Decl) and items[j].init is None and j + 1 < len(items) and isinstance(items[j + 1], c_ast.Assignment)):
                    body.append(items[j])
                    j += 1
                k = j
            mk_ = markers_of(body)
            b["ym"] = mk_.y
            b["zm_inside"] = mk_.z
            b["var_modified"] = var in mk_.assigned
            blocks.append(b)
            continue
        outside += markers_of([it]).z
        k += 1
    # a name declared twice in one scope does not compile: the declarations at the top level of the kernel body
    top = [x.name for x in items if isinstance(x, c_ast.Decl)]
    dups = sorted({x for x in top if top.count(x) > 1})
    for b in blocks:
        b["dups"] = dups
    return blocks, outside


def expected(template, tgt):
    """from the annotations: per block the list of active y-markers, and the active outside z-markers"""
    name, items = template
    blocks, outside = [], []
    for it in items:
        if it[0] == "line":
            if it[2] is None or tgt in it[2]:
                outside.append(it[1])
        elif it[0] == "block":
            ys = []
            for ln in it[3]:
                if ln[0] == "nested" or ln[2] is None or tgt in ln[2]:
                    ys.append((it[1], ln[1]))
            blocks.append(ys)
        elif it[0] == "include":
            if tgt in it[2]:
                outside.append(7)
                if tgt in ("cuda", "opencl"):
                    outside.append(6)
        elif it[0] == "includeblock":
            if tgt in it[2]:
                ys = [("qq", 5)]
                if tgt in ("cpu_serial", "opencl"):
                    ys.append(("qq", 6))
                blocks.append(ys)
    return blocks, outside


def block_lims(template, tgt):
    """the annotated bound of every vectorised block, in the order `expected` lists the blocks"""
    lims = []
    for it in template[1]:
        if it[0] == "block":
            lims.append(it[2])
        elif it[0] == "includeblock" and tgt in it[2]:
            lims.append("n")
    return lims


def lim_term(text, env):
    """the annotated bound as a z3 term over the kernel's own variables (non-negative operands: C division = floor division)"""
    fd = c_parser.CParser().parse("int lim__(int n){ return (" + text + "); }").ext[0]
    return ex(fd.body.block_items[0].expr, env)


def lim_value(text, n):
    env = {}
    t = lim_term(text, env)
    return z3.simplify(z3.substitute(asint(t), (env.setdefault("n", z3.Int("n")), z3.IntVal(n)))).as_long()


# --------------------------------------------------------------------------
# launch geometry from the real __call__ methods, symbolically
class _NpFacade:
    def __getattr__(self, n):
        return getattr(np, n)

    def ceil(self, x):
        if isinstance(x, SymReal):
            return x.__ceil__()
        return np.ceil(x)


def _sym_int(x):
    return x if isinstance(x, SymInt) else int(x)


def launch_geometry(e, n, bs):
    rec = {}

    def fcu(grid, block, args, shared_mem=0):
        rec["cuda"] = (grid, block)

    def fcl(queue, gsize, lsize, *args):
        rec["ocl"] = (gsize, lsize)

        class Ev:
            def wait(self):
                pass

        return Ev()

    old_np, had_int = xcupy.np, hasattr(xcupy, "int")
    xcupy.np = _NpFacade()
    xcupy.int = _sym_int
    xocl.int = _sym_int
    try:
        k = xcupy.KernelCupy(function=fcu, description=xo.Kernel(args=[], n_threads=n), block_size=bs, context=None, shared_mem_size_bytes=0)
        k()
        ctx = types.SimpleNamespace(queue=None)
        k2 = xocl.KernelPyopencl(function=fcl, description=xo.Kernel(args=[], n_threads=n), context=ctx, wait_on_call=True)
        k2()
    finally:
        xcupy.np = old_np
        if not had_int:
            del xcupy.int
        del xocl.int
    (grid,), (block,) = rec["cuda"]
    (G,), lsz = rec["ocl"]
    return T(grid), T(block), T(G), lsz


def lemma_L2():
    """ceil(fl(n/bs)) == ceil(n/bs) for 0<=n<2^31, 1<=bs<=1024: float division modelled over the reals with
    the IEEE-754 facts 'correctly rounded: relative error <= 2^-53' and 'exact when the quotient is an integer'"""
    import time

    n, bs, m, r = z3.Ints("n bs m r")
    f = z3.Real("f")
    s = z3.Solver()
    s.set("timeout", 60000)
    s.add(n >= 0, n < 2**31, bs >= 1, bs <= 1024, n == m * bs + r, r >= 0, r < bs)
    q = z3.ToReal(n) / z3.ToReal(bs)
    eps = z3.Q(1, 2**53)
    s.add(f >= q * (1 - eps), f <= q * (1 + eps), z3.Implies(r == 0, f == z3.ToReal(m)))
    c = z3.Int("c")
    s.add(z3.ToReal(c) - 1 < f, f <= z3.ToReal(c))
    s.add(c != z3.If(r == 0, m, m + 1))
    t = time.time()
    res = str(s.check())
    return res == "unsat", time.time() - t


def harness(job):
    ti, template = job
    name = template[0]
    src = render(template)
    e = Engine(f"vect[{name}]", timeout_ms=30000)
    info = {"concrete_failures": [], "untranslatable": 0, "blocks": 0}
    tmp = tempfile.mkdtemp(prefix="vx_c16_")
    with open(os.path.join(tmp, "inc_c16.h"), "w") as f:
        f.write(INC_TEXT)
    with open(os.path.join(tmp, "incb_c16.h"), "w") as f:
        f.write(INC_BLOCK)
    per = {}
    try:
        for tgt in TARGETS:
            spec = specialize_source(src, tgt, search_in_folders=[tmp])
            ast = c_parser.CParser().parse(preprocess(spec, tgt))
            fdef = [x for x in ast.ext if isinstance(x, c_ast.FuncDef) and x.decl.name == name]
            if len(fdef) != 1:
                info["concrete_failures"].append((tgt, f"kernel function {name} not found exactly once in the specialised source"))
                continue
            try:
                per[tgt] = analyse_kernel(fdef[0], tgt)
            except Untranslatable as exn:
                info["untranslatable"] += 1
                e.notes.append(f"{tgt}: untranslatable construct {exn}")
    except Exception as exn:  # noqa
        info["concrete_failures"].append(("all", f"specialize_source/parse failed: {type(exn).__name__}: {str(exn)[:120]}"))
    finally:
        import shutil

        shutil.rmtree(tmp, ignore_errors=True)

    # ---- non-solver part: markers present where the annotations say -----------------
    for tgt, (blocks, outside) in per.items():
        eb, eo = expected(template, tgt)
        if len(blocks) != len(eb):
            info["concrete_failures"].append((tgt, f"{len(blocks)} vectorised blocks recognised, template has {len(eb)}"))
            continue
        for bi, (b, want) in enumerate(zip(blocks, eb)):
            want_here = [(b["var"], J) for (_, J) in want]
            got = b["ym"] if tgt != "opencl" else b["ym"][: len(want_here)] if b["ym"][: len(want_here)] == want_here else b["ym"]
            if got != want_here:
                info["concrete_failures"].append((tgt, f"block {bi}: body statements {b['ym']} differ from the annotated template {want_here}"))
            if b["var_modified"]:
                info["concrete_failures"].append((tgt, f"block {bi}: the index variable is modified inside the body"))
        allz = outside + [z for b in blocks for z in b["zm_inside"]]
        if sorted(allz) != sorted(eo):
            info["concrete_failures"].append((tgt, f"unvectorised statements present {sorted(allz)} differ from the annotated template {sorted(eo)}"))

    # ---- solver part --------------------------------------------------------------------
    def body(e):
        n = e.sym("n", 0, 2**31 - 1)
        bs = e.sym("bs", 1, 1024)
        grid, block, G, lsz = launch_geometry(e, n, bs)
        det = lambda m: {"n": m.eval(n.e, model_completion=True).as_long(), "bs": m.eval(bs.e, model_completion=True).as_long(), "template": ti}
        v = z3.Int("v!idx")
        inrange = z3.And(0 <= v, v < n.e)
        e.prove(z3.BoolVal(lsz is None), "opencl: local size left to the runtime", det)
        for tgt, (blocks, outside) in per.items():
            lims = block_lims(template, tgt)
            for bi, b in enumerate(blocks):
                info["blocks"] += 1
                env = b["env"]
                lim_text = lims[bi] if bi < len(lims) else "n"
                n_threads_lim = lim_text == "n"
                env.setdefault("n", z3.Int("n"))
                LIM = lim_term(lim_text, env)
                inrange = z3.And(0 <= v, v < LIM)  # the indices the annotation names: 0 .. bound-1
                lim_bind = []
                for nm, var in env.items():
                    if nm == "n":
                        lim_bind.append(var == n.e)
                bind = z3.And(lim_bind) if lim_bind else z3.BoolVal(True)
                tag = f"{tgt} block {bi} ({b['var']})"
                if bi == 0:
                    e.prove(z3.BoolVal(not b.get("dups")), f"{tgt}: the expansion declares no name twice in the scope of the kernel body (it compiles): {b.get('dups')}", det)
                if b["kind"] == "for":
                    vv = env.get(b["var"], z3.Int(b["var"]))
                    cond_v = z3.substitute(b["cond"], (vv, v))
                    e.prove(z3.BoolVal(b["step_ok"]), f"{tag}: the loop advances the index by one per iteration", det)
                    # executed set of `for (v=I; cond(v); v++)` = {v >= I : cond holds on I..v}; for a bound that is
                    # monotone (v < lim / v <= lim) that is I <= v /\ cond(v)
                    e.prove(z3.Implies(bind, z3.And(b["init"] <= v, cond_v) == inrange), f"{tag}: the body runs for exactly the indices 0..n-1" + ("" if n_threads_lim else f" (bound {lim_text})"), det)
                    w = z3.Int("v!w")
                    e.prove(z3.Implies(z3.And(bind, z3.substitute(b["cond"], (vv, w)), b["init"] <= v, v <= w), cond_v), f"{tag}: the loop condition is monotone (no index is skipped)", det)
                elif b["kind"] == "opencl":
                    if not n_threads_lim:
                        inrange = z3.And(0 <= v, v < n.e)  # no guard in the OpenCL form: once per work-item of the launch
                    gid = env.get("gid", z3.Int("gid"))
                    g2 = z3.Int("gid!2")
                    vx = b["vexpr"]
                    e.prove(z3.Implies(z3.And(bind, 0 <= gid, gid < G), z3.And(0 <= vx, vx < n.e)), f"{tag}: every work-item of the launch runs an index in 0..n-1", det)
                    e.prove(z3.Implies(z3.And(bind, inrange), z3.And(0 <= v, v < G, z3.substitute(vx, (gid, v)) == v)), f"{tag}: every index 0..n-1 is run by some work-item of the launch", det)
                    e.prove(z3.Implies(z3.And(bind, vx == z3.substitute(vx, (gid, g2))), gid == g2), f"{tag}: distinct work-items run distinct indices (exactly once)", det)
                else:
                    bd, bx, tx = (env.get(k_, z3.Int(k_)) for k_ in ("blockDim.x", "blockIdx.x", "threadIdx.x"))
                    vx = b["vexpr"]
                    vvar = env.get(b["var"], z3.Int(b["var"]))
                    guard = z3.substitute(b["guard"], (vvar, vx))
                    valid = z3.And(bind, bd == block, 0 <= bx, bx < grid, 0 <= tx, tx < block)
                    e.prove(z3.Implies(z3.And(valid, guard), z3.And(0 <= vx, vx < LIM)), f"{tag}: a thread that passes the guard runs an index in 0..n-1" + ("" if n_threads_lim else f" (bound {lim_text})"), det)
                    if not n_threads_lim:
                        inrange = z3.And(inrange, v < n.e)  # threads exist for 0..n_threads-1 only
                    wb, wt = v / block, v % block
                    sub = [(bx, wb), (tx, wt), (bd, block)]
                    e.prove(
                        z3.Implies(z3.And(bind, inrange), z3.And(0 <= wb, wb < grid, z3.substitute(vx, *sub) == v, z3.substitute(guard, *sub))),
                        f"{tag}: every index 0..n-1 is run by a thread of the launched grid (grid = ceil(n/block))",
                        det,
                    )
                    bx2, tx2 = z3.Int("bx!2"), z3.Int("tx!2")
                    vx2 = z3.substitute(vx, (bx, bx2), (tx, tx2))
                    e.prove(
                        z3.Implies(z3.And(valid, 0 <= bx2, bx2 < grid, 0 <= tx2, tx2 < block, vx == vx2), z3.And(bx == bx2, tx == tx2)),
                        f"{tag}: distinct threads run distinct indices (exactly once)",
                        det,
                    )
        e.reach()

    e.explore(body)
    r = e.result()
    r["info"] = info
    r["template"] = ti
    return r


REPLAY = '''#!/usr/bin/env python
"""replay: host-compile the specialised kernel of every target and drive it with a SIMULATED launch using the
geometry the real __call__ methods compute (exit 1 = some index is not executed exactly once / a line is active in the wrong context)"""
import os, sys
if not sys.executable.startswith("/verif/.venv"):
    os.execv("/verif/.venv/bin/python", ["/verif/.venv/bin/python"] + sys.argv)
sys.path.insert(0, "/verif")
from checks import vect
sys.exit(vect.replay({ti}, {n}, {bs}))
'''


def replay(ti, n, bs):
    """concrete: gcc + ctypes"""
    import ctypes

    template = templates()[ti]
    name = template[0]
    src = render(template)
    tmp = tempfile.mkdtemp(prefix="vx_c16r_")
    with open(os.path.join(tmp, "inc_c16.h"), "w") as f:
        f.write(INC_TEXT)
    with open(os.path.join(tmp, "incb_c16.h"), "w") as f:
        f.write(INC_BLOCK)
    rec = {}

    def fcu(grid, block, args, shared_mem=0):
        rec["cuda"] = (int(grid[0]), int(block[0]))

    def fcl(queue, gsize, lsize, *args):
        rec["ocl"] = int(gsize[0])

        class Ev:
            def wait(self):
                pass

        return Ev()

    xcupy.KernelCupy(function=fcu, description=xo.Kernel(args=[], n_threads=n), block_size=bs, context=None, shared_mem_size_bytes=0)()
    xocl.KernelPyopencl(function=fcl, description=xo.Kernel(args=[], n_threads=n), context=types.SimpleNamespace(queue=None), wait_on_call=True)()
    bad = 0
    for tgt in TARGETS:
        try:
            spec = specialize_source(src, tgt, search_in_folders=[tmp])
        except Exception as ex:
            print(f"VIOLATED [{tgt}]: specialize_source raised {type(ex).__name__}: {str(ex)[:120]} on a template built from the documented annotations")
            bad = 1
            continue
        pre = "typedef struct {int x;} dim3_; static dim3_ blockDim, blockIdx, threadIdx; static int gid_; static int get_global_id(int d){return gid_;}\\n"
        if tgt == "cuda":
            drv = f"void drive(int n, double* y, double* z, int grid, int block, int G){{ blockDim.x = block; for (int b=0;b<grid;b++) for (int t=0;t<block;t++){{ blockIdx.x=b; threadIdx.x=t; {name}(n,y,z); }} }}"
            defs = ["-D__device__=static", "-D__global__="]
        elif tgt == "opencl":
            drv = f"void drive(int n, double* y, double* z, int grid, int block, int G){{ for (int g=0; g<G; g++){{ gid_=g; {name}(n,y,z); }} }}"
            defs = ["-D__global=", "-D__kernel="]
        else:
            drv = f"void drive(int n, double* y, double* z, int grid, int block, int G){{ {name}(n,y,z); }}"
            defs = []
        cfile = os.path.join(tmp, f"k_{tgt}.c")
        so = os.path.join(tmp, f"k_{tgt}.so")
        with open(cfile, "w") as f:
            f.write(pre + spec + "\\n" + drv + "\\n")
        p = subprocess.run(["gcc", "-std=gnu99", "-shared", "-fPIC", "-O0", "-o", so, cfile] + defs, capture_output=True, text=True)
        if p.returncode:
            print(f"VIOLATED [{tgt}]: specialised source does not compile on the host: {p.stderr[:300]}")
            bad = 1
            continue
        lib = ctypes.CDLL(so)
        room = (n + 2 * bs + 4) * NM
        y = (ctypes.c_double * room)()
        z = (ctypes.c_double * 16)()
        grid, block = rec["cuda"]
        lib.drive(ctypes.c_int(n), y, z, ctypes.c_int(grid), ctypes.c_int(block), ctypes.c_int(rec["ocl"]))
        eb, eo = expected(template, tgt)
        lims = block_lims(template, tgt)
        upto = {}
        for blk, lt in zip(eb, lims):
            for _, J in blk:
                upto[J] = n if tgt == "opencl" else min(n, lim_value(lt, n))
        for idx in range(n + 2 * bs + 4):
            for J in range(NM):
                want = 1.0 if (J in upto and idx < upto[J]) else 0.0
                if y[idx * NM + J] != want:
                    print(f"VIOLATED [{tgt}]: marker {J} of index {idx} executed {y[idx*NM+J]} times, expected {want} (n={n}, block={bs}, grid={grid}, G={rec['ocl']})")
                    bad = 1
                    break
            if bad:
                break
        if tgt.startswith("cpu"):
            for J in range(8):
                want = 1.0 if J in eo else 0.0
                if z[J] != want:
                    print(f"VIOLATED [{tgt}]: unvectorised statement {J} executed {z[J]} times, expected {want}")
                    bad = 1
    import shutil

    shutil.rmtree(tmp, ignore_errors=True)
    if not bad:
        print("property holds on this case")
    return bad


def main(pid):
    tr = tier()
    rep = Report(pid, "translation_validation", tr, technique="loop/launch forms read off the pycparser AST of the real specialize_source output per target + launch geometry from symbolic execution of the real KernelCupy/KernelPyopencl.__call__; z3 proves executed-index-set equality and injectivity for all n and block sizes")
    ts = templates()
    jobs = list(enumerate(ts))
    okL2, secs = lemma_L2()
    results = run_parallel(harness, jobs)
    programs = 0
    for (ti, template), res in zip(jobs, results):
        rep.add_engine_result(res)
        programs += res["info"]["blocks"]
        rep.extra["untranslatable"] = rep.extra.get("untranslatable", 0) + res["info"]["untranslatable"]
        for cex in res["cexs"]:
            d = cex.get("detail") or {}
            sig = "vect:" + cex["obligation"].split(": ", 1)[-1][:70] + ":" + cex["obligation"].split(" ")[0]
            rep.candidate(sig, f"{template[0]}: {cex['obligation']} with n={d.get('n')} block={d.get('bs')}", REPLAY.format(ti=ti, n=min(d.get("n", 5), 5000), bs=min(d.get("bs", 2), 64)))
        for tgt, msg in res["info"]["concrete_failures"]:
            sig = f"vect-text:{tgt}:{msg.split(':')[0][:50]}"
            rep.candidate(sig, f"{template[0]} [{tgt}]: {msg} (auxiliary, concrete observation on the template)", REPLAY.format(ti=ti, n=5, bs=2))
    rep.programs = programs
    rep.extra["templates"] = [t[0] for t in ts]
    rep.extra["lemma_L2_unsat"] = okL2
    rep.extra["rule"] = "one evaluation = one obligation about one vectorised block of one template in one target, for ALL n and block sizes (z3); programs = (template, target, block) triples analysed; concrete marker observations are auxiliary"
    if not okL2:
        rep.harness_error("lemma L2 (ceil of the float quotient) not unsat")
    for fn in (specialize_source, xcupy.KernelCupy.__call__, xocl.KernelPyopencl.__call__):
        rep.add_function(fn)
    rep.bounds = {
        "templates": f"{len(ts)} kernel templates (enumerated): one/two/three blocks, statements outside blocks, context-restricted lines inside and outside, nested control flow, include_file",
        "n": "all 0 <= n < 2^31 (solver)",
        "block size": "all 1 <= bs <= 1024 (solver)",
        "targets": list(TARGETS),
        "outside_claim": ["arbitrary kernel sources", "real devices and device compilers", "OpenMP scheduling", "argument marshalling of the __call__ methods (C17)", "limits other than the n_threads argument"],
    }
    rep.assumptions = [
        "S7: int()/np.ceil/float division inside KernelCupy.__call__ on proxies; L2: ceil(fl(n/bs)) == ceil(n/bs) from the IEEE-754 rounding axiom (relative error <= 2^-53, exact integer quotients), discharged this run: %s in %.2fs" % (okL2, secs),
        "S10: C loop semantics of the three recognised forms; anything else is untranslatable (inconclusive)",
        "GPU execution model: opencl runs the kernel once per gid in [0, global size); cuda once per (blockIdx, threadIdx) in grid x block",
        "the text-level claims (pass-through, only_for_context, include_file) are OBSERVED on the enumerated templates by locating marker statements in the parsed output -- no solver verdict is claimed for them",
    ]
    rep.stubs = ["S7", "S10", "L2"]
    return rep.finish()
