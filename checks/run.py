"""entry point: python -m checks.run <property id> [--tier quick|thorough]"""
import importlib
import os
import sys

sys.path.insert(0, os.path.dirname(os.path.dirname(os.path.abspath(__file__))))

MODULES = {
    "C02": ("checks.capi_tv", "C02"),
    "C07": ("checks.capi_tv", "C07"),
    "C15": ("checks.capi_tv", "C15"),
    "C04": ("checks.alloc", "C04"),
    "C12": ("checks.alloc", "C12"),
    "C14": ("checks.deps", "C14"),
    "C13": ("checks.prims", "C13"),
    "C16": ("checks.vect", "C16"),
    "C01": ("checks.wrun", "C01"),
    "C03": ("checks.wrun", "C03"),
    "C05": ("checks.wrun", "C05"),
    "C06": ("checks.wrun", "C06"),
    "C08": ("checks.wrun", "C08"),
    "C09": ("checks.wrun", "C09"),
    "C10": ("checks.wrun", "C10"),
    "C11": ("checks.wrun", "C11"),
    "C20": ("checks.wrun", "C20"),
    "C17": ("checks.wrun", "C17"),
    "C18": ("checks.wrun", "C18"),
    "C19": ("checks.wrun", "C19"),
}


def main(argv):
    if len(argv) < 1 or argv[0] not in MODULES:
        print("usage: python -m checks.run <%s> [--tier quick|thorough]" % "|".join(sorted(MODULES)))
        return 2
    pid = argv[0]
    if "--tier" in argv:
        os.environ["VERIF_TIER"] = argv[argv.index("--tier") + 1]
    mod, arg = MODULES[pid]
    m = importlib.import_module(mod)
    return m.main(arg)


if __name__ == "__main__":
    sys.exit(main(sys.argv[1:]))
