"""C02 / C07 / C15 -- translation validation of the generated C accessors.

For every catalogue type, every data path and every generated function the
real C text (per target) is translated to z3 terms (vx.cgen) and compared, for
ALL indices and ALL header words at once (`ld` uninterpreted), with
  * the address expression of the documented layout (vx.layoutspec), and
  * the term obtained by running the real Python readers on an ld-buffer
    (vx.pyreader)                                                   [C02]
  * in-bounds / alignment / no-overflow / single-store obligations   [C07]
  * the translation of the other targets + qualifier discipline       [C15]
"""
import json
import time

import z3

from vx import cgen, pyreader, symx, typegen as tg
from vx.cgen import LD, ld8, Ptr
from vx.layoutspec import Walk, array_plan, static_size
from vx.report import Report, run_parallel, tier, seed
from vx.symx import Engine, SymInt, T

from xobjects import capi
from xobjects.array import is_index, is_array
from xobjects.ref import is_ref, is_unionref
from xobjects.scalar import is_scalar
from xobjects.string import is_string
from xobjects.struct import is_field, is_struct
from xobjects.typeutils import default_conf
from xobjects.context import sort_classes

BUFLO, BUFHI = z3.Int("BUFLO"), z3.Int("BUFHI")
I64MIN, I64MAX = -(2**63), 2**63 - 1
QTIMEOUT = 20000


class Stats:
    def __init__(self, name):
        self.d = dict(name=name, paths=0, queries=0, obligations=0, discharged=0, cex=0, unknown=0, truncated=0, aborted=0, forks=0, fork_caps=0, nontrivial=0, reached=0, solver_s=0.0)
        self.hashes = set()
        self.samples = []
        self.cexs = []
        self.notes = []
        self.extra = dict(programs=0, untranslatable=0, python_reader_raised=0, functions_by_kind={})
        self.smt = []
        self.smt_keep = symx.default_smt_keep()

    def result(self):
        r = dict(self.d)
        r.update(hashes=sorted(self.hashes), samples=self.samples, cexs=self.cexs, notes=self.notes[:10], reach={"end": self.d["reached"]}, extra=self.extra, smt=self.smt)
        return r


class FSolver:
    """one solver per generated function: WF asserted once, goals by push/pop"""

    def __init__(self, st, wf, fname):
        self.st, self.fname = st, fname
        self.s = z3.Solver()
        self.s.set("timeout", QTIMEOUT)
        self.s.add(*wf)

    def check(self, *extra):
        t = time.time()
        r = str(self.s.check(*extra))
        self.st.d["solver_s"] += time.time() - t
        self.st.d["queries"] += 1
        return r

    def prove(self, goal, what, cex_info=None, idx=()):
        import hashlib

        st = self.st
        st.d["obligations"] += 1
        neg = z3.simplify(z3.Not(goal))
        if z3.is_false(neg):
            st.d["discharged"] += 1
            if len(st.samples) < 1:
                st.samples.append({"function": self.fname, "obligation": what, "goal": symx._short(z3.simplify(goal) if False else goal, 300), "verdict": "identical after z3 simplify (no query needed)"})
            return True
        st.d["nontrivial"] += 1
        st.hashes.add(hashlib.md5((self.fname + "|" + what + "|" + neg.sexpr()).encode()).hexdigest())
        r = self.check(neg)
        if r == "unsat":
            st.d["discharged"] += 1
            if len(st.smt) < st.smt_keep:
                self.s.push()
                self.s.add(neg)
                try:
                    st.smt.append(self.s.to_smt2())
                finally:
                    self.s.pop()
            if len(st.samples) < 2:
                st.samples.append({"function": self.fname, "obligation": what, "negated_goal": symx._short(neg, 300), "verdict": "unsat (holds for all indices and header words under WF)"})
            return True
        if r == "sat":
            st.d["cex"] += 1
            m = self.s.model()
            vals = {str(i): m.eval(i, model_completion=True).as_long() for i in idx}
            if len(st.cexs) < 40:
                st.cexs.append({"function": self.fname, "obligation": what, "model": vals, "info": cex_info, "negated_goal": symx._short(neg, 300)})
            return False
        st.d["unknown"] += 1
        st.notes.append(f"unknown: {self.fname}: {what}")
        return False


def kind_of(cls, kernel):
    rest = kernel.c_name[len(cls._c_type) + 1 :]
    head = rest.split("_")[0]
    k = head.rstrip("0123456789")
    return k if k in ("get", "set", "getp", "len", "typeid", "member") else "other"


def part_kind(t):
    return "ref" if t[0] == "ref" else ("uref" if t[0] == "uref" else "plain")


def spec_path(ast, path):
    """walk the documented layout along `path`; returns (walk, address, AST of the leaf, pattern, pdesc)"""
    w = Walk(ld8, ast, BUFLO, BUFHI)
    addr = z3.IntVal(0)
    cur = ast
    pattern = []
    pdesc = []
    last_index = None
    for part in path[1:]:
        if is_field(part):
            ft = dict(cur[2])[part.name]
            soff_dyn = static_size(ft) is None
            addr, cur2 = w.field(cur, addr, part.name)
            pattern.append(("F" if part.is_reference else ("D" if soff_dyn else "f")))
            pdesc.append(("f", part.name, part_kind(cur2)))
            cur = cur2
        elif is_index(part):
            before = (cur, addr)
            p = array_plan(cur)
            addr, cur2 = w.index(cur, addr)
            pattern.append(("I" if p["isz"] is None else "i") + str(p["nd"]) + ("o" if p["order"] != list(range(p["nd"])) else ""))
            pdesc.append(("i", p["nd"], part_kind(cur2)))
            last_index = (before, p)
            cur = cur2
        elif is_ref(part):
            addr, cur = w.deref(cur, addr)
            pattern.append("r")
            pdesc.append(("r",))
    return w, addr, cur, "".join(pattern) or "-", pdesc, last_index


def py_term(st, cls, path, wf, idx, kind, spec_term, fname):
    """three-way: the term the real Python readers report == spec, on every feasible reader path"""
    e = Engine(fname + "/py", timeout_ms=QTIMEOUT, max_decisions=200)
    out = {"raised": None}

    def body(e):
        e.assume(z3.And(wf) if wf else z3.BoolVal(True))
        buf = pyreader.LdBuffer()
        try:
            t = pyreader.walk(cls, path, buf, [SymInt(i) for i in idx], kind)
        except Exception as ex:  # noqa -- the Python accessor cannot report (C06 territory)
            out["raised"] = f"{type(ex).__name__}: {str(ex)[:80]}"
            e.reach()
            return
        e.prove(T(t) == spec_term, f"Python accessor ({kind}) reports the documented address/value", {"kind": kind})
        e.reach()

    with pyreader.patched():
        e.explore(body)
    r = e.result()
    for k in ("paths", "queries", "obligations", "discharged", "cex", "unknown", "truncated", "aborted", "forks", "fork_caps", "nontrivial"):
        st.d[k] += r[k]
    st.d["solver_s"] += r["solver_s"]
    st.hashes.update(r["hashes"])
    if out["raised"]:
        st.extra["python_reader_raised"] += 1
        if len(st.notes) < 10:
            st.notes.append(f"{fname}: Python reader raised {out['raised']} (reported under C06, not C02)")
    for c in r["cexs"]:
        st.cexs.append({"function": fname, "obligation": c["obligation"], "model": {}, "info": {"side": "python"}, "negated_goal": c["negated_goal"]})
    return r


def c_leaf_ok(f, kind, leaf):
    """concrete: width and C type of the leaf access match the item type"""
    if leaf[0] != "scalar":
        return True, ""
    want = tg.ISZ[leaf[1]]
    wk = "f" if leaf[1].startswith("Float") else ("u" if leaf[1].startswith("U") else "i")
    if kind == "get":
        a, w, k, tn = f.loads[-1]
    elif kind == "set":
        a, w, k, tn, v = f.stores[0]
    elif kind == "getp":
        w, k = f.ret.elsize, f.ret.kind
    else:
        return True, ""
    if w != want or k != wk:
        return False, f"leaf accessed as {k}{w}, item type is {wk}{want}"
    return True, ""


def analyse(job):
    pid, label, ast, tr, all_classes = job
    st = Stats(f"{pid}:{label}")
    primed = label.endswith(" [after _gen_c_decl({}) / _gen_kernels({})]")
    cls = tg.build(ast)
    if primed:
        # the order a context may well use: the cffi declarations (generated with an EMPTY configuration) and the
        # kernel descriptions are produced BEFORE the accessor source of these fresh classes; the source must not
        # depend on what earlier generator calls left behind
        try:
            for c in sort_classes([cls]):
                if hasattr(c, "_gen_c_decl"):
                    c._gen_c_decl({})
                if hasattr(c, "_gen_kernels"):
                    c._gen_kernels({})
        except Exception as ex:  # noqa
            st.notes.append(f"priming failed: {type(ex).__name__}: {str(ex)[:100]}")
    try:
        units = {"cpu_serial": cgen.Unit([cls], "cpu_serial")}
        if pid == "C15":
            for tgt in ("cpu_openmp", "opencl", "cuda"):
                units[tgt] = cgen.Unit([cls], tgt)
    except Exception as ex:  # noqa
        st.extra["untranslatable"] += 1
        st.notes.append(f"translation unit failed: {type(ex).__name__}: {str(ex)[:200]}")
        st.d["reached"] = 1
        return st.result()
    cpu = units["cpu_serial"]
    if pid == "C15":
        c15_unit_checks(st, cls, units, label)
    targets = [(cls, ast)]
    if all_classes:
        rev = {id(v): k for k, v in tg._cache.items()}
        for c in sort_classes([cls]):
            if c is not cls and id(c) in rev and hasattr(c, "_gen_data_paths") and (is_struct(c) or is_array(c) or is_unionref(c)):
                targets.append((c, rev[id(c)]))
    for c, a in targets:
        for path in c._gen_data_paths():
            methods = [(s, k) for s, k in capi.methods_from_path(c, path, default_conf) if k is not None]
            if not methods:
                continue
            w, addr, leaf, pattern, pdesc, last_index = spec_path(a, path)
            for _, kernel in methods:
                kind = kind_of(c, kernel)
                name = kernel.c_name
                st.extra["programs"] += 1
                st.extra["functions_by_kind"][kind] = st.extra["functions_by_kind"].get(kind, 0) + 1
                f = cpu.funs.get(name)
                if f is None or f.error or kind == "other":
                    st.extra["untranslatable"] += 1
                    st.notes.append(f"{name}: {'missing' if f is None else (f.error or 'method kind outside the translator')}")
                    continue
                info = {"ast": a, "c_name": name, "pdesc": pdesc, "kind": kind, "pattern": pattern, "root": c.__name__}
                if pid == "C02":
                    c02_function(st, c, a, path, f, kind, w, addr, leaf, info)
                elif pid == "C07":
                    c07_function(st, c, a, path, f, kind, w, addr, leaf, info, last_index)
                elif pid == "C15":
                    c15_function(st, units, name, info)
    st.d["reached"] = 1 if st.extra["programs"] else 0
    st.d["paths"] += st.extra["programs"]
    return st.result()


def spec_goal(w, f, kind, addr, leaf):
    """(C term, spec term) for the function kind"""
    if kind == "get":
        return f.loads[-1][0], addr
    if kind == "set":
        return f.stores[0][0], addr
    if kind == "getp":
        return f.ret.off, addr
    if kind == "len":
        return f.ret, None
    if kind == "typeid":
        return f.ret, w.union_typeid(addr)
    if kind == "member":
        return f.ret.off, w.union_member(addr)


def c02_function(st, cls, ast, path, f, kind, w, addr, leaf, info):
    try:
        cterm, sterm = spec_goal(w, f, kind, addr, leaf)
        if kind == "len":
            sterm = None
    except Exception as ex:  # noqa
        st.extra["untranslatable"] += 1
        st.notes.append(f"{f.name}: shape of translated function unexpected ({type(ex).__name__})")
        return
    if kind == "len":
        # spec: product of dims of the array the path ends at
        w2, a2, leaf2, _, _, _ = spec_path(ast, path)
        sterm = w2.alen(leaf2, a2)
        w = w2
    if kind in ("typeid", "member"):
        rel = ld8(addr)
        tid = ld8(addr + 8)
        w.wf += [rel != -(2**63), tid >= 0, tid < len(leaf[2])]
    fs = FSolver(st, w.wf, f.name)
    r0 = fs.check()
    if r0 != "sat":
        if r0 == "unsat" and any(is_index(p_) and 0 in [d for d in p_.cls._shape if d is not None] for p_ in path):
            # an accessor that indexes a zero-length static axis has no in-range index: nothing to decide
            st.extra["no_in_range_index"] = st.extra.get("no_in_range_index", 0) + 1
            return
        st.notes.append(f"{f.name}: WF unsatisfiable or unknown -- vacuous")
        st.d["unknown"] += 1
        return
    fs.prove(cterm == sterm, f"C {kind}: term of the generated code == documented layout", info, w.idx)
    ok, why = c_leaf_ok(f, kind, leaf)
    st.d["obligations"] += 1
    if ok:
        st.d["discharged"] += 1
    else:
        st.d["cex"] += 1
        st.cexs.append({"function": f.name, "obligation": "C leaf width/type: " + why, "model": {}, "info": info, "negated_goal": why})
    py_term(st, cls, path, w.wf, w.idx, kind, sterm, f.name)


def c07_function(st, cls, ast, path, f, kind, w, addr, leaf, info, last_index):
    if kind in ("typeid", "member"):
        rel = ld8(addr)
        w.wf += [rel != -(2**63), BUFLO <= addr + rel, addr + rel < BUFHI]
    fs = FSolver(st, w.wf, f.name)
    r0 = fs.check()
    if r0 != "sat":
        if r0 == "unsat" and any(is_index(p_) and 0 in [d for d in p_.cls._shape if d is not None] for p_ in path):
            # an accessor that indexes a zero-length static axis has no in-range index: nothing to decide
            st.extra["no_in_range_index"] = st.extra.get("no_in_range_index", 0) + 1
            return
        st.notes.append(f"{f.name}: WF unsatisfiable or unknown -- vacuous")
        st.d["unknown"] += 1
        return
    accesses = [(a, wd, "load") for a, wd, k, tn in f.loads] + [(a, wd, "store") for a, wd, k, tn, v in f.stores]
    subst = [(z3.simplify(k), z3.simplify(v)) for k, v in w.subst]
    for a, wd, what in accesses:
        # the object an access belongs to = the innermost container (root object or a reference
        # target on the path) it provably lies in; alignment is then relative to that object's start
        a_s = z3.substitute(z3.simplify(a), *subst) if subst else a  # stride words replaced by their WF values
        home = None
        conts = list(reversed(w.containers))
        if len(conts) == 1:
            if fs.prove(z3.And(conts[0][0] <= a, a + wd <= conts[0][0] + conts[0][1]), f"{what} of {wd} bytes stays inside the object", info, w.idx):
                home = conts[0]
        else:
            for cs, sz in conts:
                st.d["obligations"] -= 1  # probing queries are not obligations
                if fs.check(z3.Not(z3.And(cs <= a, a + wd <= cs + sz))) == "unsat":
                    home = (cs, sz)
                    break
            st.d["obligations"] += len(conts) if home is None else (conts.index(home) + 1)
            fs.prove(z3.Or([z3.And(cs <= a, a + wd <= cs + sz) for cs, sz in conts]) if home is None else z3.And(home[0] <= a, a + wd <= home[0] + home[1]), f"{what} of {wd} bytes stays inside the object (or the reference target) it belongs to", info, w.idx)
        if home is not None:
            fs.prove(z3.simplify((a_s - home[0]) % wd) == 0, f"{what} of {wd} bytes is aligned relative to the start of its object", info, w.idx)
    for v in f.subexprs:
        v_s = z3.simplify(z3.substitute(z3.simplify(v), *subst)) if subst else v
        if z3.is_int_value(v_s):
            continue
        fs.prove(z3.And(v_s >= I64MIN, v_s <= I64MAX), "no signed overflow in a sub-expression of the offset computation", info, w.idx)
    if kind == "set":
        st.d["obligations"] += 3
        ok1 = len(f.stores) == 1
        ok2 = bool(f.events) and f.events[-1] == "S" and f.events.count("S") == 1
        valname = [p for p in f.params if p[0] == "value"]
        ok3 = ok1 and valname and z3.eq(f.stores[0][4], f.env["value"])
        for ok, why in ((ok1, "setter performs exactly one store"), (ok2, "the store is the last memory access"), (ok3, "the stored value is the value parameter, unconverted")):
            if ok:
                st.d["discharged"] += 1
            else:
                st.d["cex"] += 1
                st.cexs.append({"function": f.name, "obligation": why, "model": {}, "info": info, "negated_goal": why})
        if ok1:
            fs.prove(f.stores[0][0] == addr, "setter stores at the documented element address", info, w.idx)
            okw, why = c_leaf_ok(f, kind, leaf)
            st.d["obligations"] += 1
            if okw:
                st.d["discharged"] += 1
            else:
                st.d["cex"] += 1
                st.cexs.append({"function": f.name, "obligation": "setter width/type: " + why, "model": {}, "info": info, "negated_goal": why})
    elif kind in ("get", "getp", "len", "typeid", "member"):
        st.d["obligations"] += 1
        if f.stores:
            st.d["cex"] += 1
            st.cexs.append({"function": f.name, "obligation": "a reader stores to memory", "model": {}, "info": info, "negated_goal": "stores in getter"})
        else:
            st.d["discharged"] += 1
    # distinct in-range indices of the last array level address disjoint elements (static items)
    if kind in ("set", "get") and last_index is not None and last_index[1]["isz"] is not None and path and is_index(path[-2] if len(path) >= 2 else None):
        (arr_ast, arr_addr), p = last_index
        w2 = Walk(ld8, ast, BUFLO, BUFHI)
        w2.icount = 100
        pos2, _ = w2.index(arr_ast, arr_addr)
        nd = p["nd"]
        i1 = w.idx[-nd:]
        i2 = w2.idx[-nd:]
        fs2 = FSolver(st, list(w.wf) + list(w2.wf), f.name)
        differ = z3.Or([a != b for a, b in zip(i1, i2)])
        wd = p["w"]
        fs2.prove(z3.Implies(differ, z3.Or(addr + wd <= pos2, pos2 + wd <= addr)), "distinct in-range index tuples address disjoint elements", info, list(i1) + list(i2))


def term_eq(a, b):
    if isinstance(a, Ptr) and isinstance(b, Ptr):
        return a.off, b.off, (a.elsize, a.kind) == (b.elsize, b.kind)
    if isinstance(a, Ptr) or isinstance(b, Ptr):
        return None, None, False
    if isinstance(a, str) or isinstance(b, str):
        return None, None, a == b
    return a, b, True


def c15_function(st, units, name, info):
    ref = units["cpu_serial"].funs[name]
    for tgt in ("cpu_openmp", "opencl", "cuda"):
        u = units[tgt]
        f = u.funs.get(name)
        st.d["obligations"] += 1
        if f is None:
            st.d["cex"] += 1
            st.cexs.append({"function": name, "obligation": f"{tgt}: function missing from the specialised source", "model": {}, "info": info, "negated_goal": "missing"})
            continue
        if f.error:
            st.extra["untranslatable"] += 1
            st.notes.append(f"{tgt}:{name}: {f.error}")
            continue
        st.d["discharged"] += 1
        fs = FSolver(st, [], f"{tgt}:{name}")
        pairs = []
        shape_ok = len(f.loads) == len(ref.loads) and len(f.stores) == len(ref.stores) and f.events == ref.events
        a, b, same_t = term_eq(f.ret, ref.ret) if (f.ret is not None and ref.ret is not None) else (None, None, f.ret is ref.ret)
        shape_ok = shape_ok and same_t and (f.ret_info[0], f.ret_info[1], f.ret_isptr) == (ref.ret_info[0], ref.ret_info[1], ref.ret_isptr)
        if a is not None:
            pairs.append((a, b, "return value / returned address"))
        if shape_ok:
            for (a1, w1, k1, t1), (a2, w2, k2, t2) in zip(f.loads, ref.loads):
                shape_ok = shape_ok and (w1, k1) == (w2, k2)
                pairs.append((a1, a2, "load address"))
            for (a1, w1, k1, t1, v1), (a2, w2, k2, t2, v2) in zip(f.stores, ref.stores):
                shape_ok = shape_ok and (w1, k1) == (w2, k2)
                pairs.append((a1, a2, "store address"))
                pairs.append((v1, v2, "stored value"))
        st.d["obligations"] += 1
        if not shape_ok:
            st.d["cex"] += 1
            st.cexs.append({"function": name, "obligation": f"{tgt}: same number, order, width and type of memory accesses and same return type as cpu_serial", "model": {}, "info": info, "negated_goal": "shape differs"})
        else:
            st.d["discharged"] += 1
        for a, b, what in pairs:
            fs.prove(a == b, f"{tgt}: {what} equals the cpu_serial translation", info)
        # qualifier discipline
        quals = u.fun_ptr_quals.get(name, [])
        st.d["obligations"] += 1
        if tgt == "opencl":
            bad = [q for q in quals if not q[0] and not q[1].startswith("struct")]
            bad += [q for q in quals if not q[0] and q[1].startswith("struct")]
        else:
            bad = [q for q in quals if q[0]]
        if bad:
            st.d["cex"] += 1
            st.cexs.append({"function": name, "obligation": f"{tgt}: " + ("a pointer into object memory lacks the global address-space qualifier" if tgt == "opencl" else "address-space qualifier present on a non-OpenCL target"), "model": {}, "info": info, "negated_goal": str(bad[:3])})
        else:
            st.d["discharged"] += 1


def c15_unit_checks(st, cls, units, label):
    for tgt, u in units.items():
        # typedefs of opaque object pointers carry the qualifier in OpenCL only
        st.d["obligations"] += 1
        bad = [n for n, m in u.typedef_marked.items() if m != (tgt == "opencl")]
        if bad:
            st.d["cex"] += 1
            st.cexs.append({"function": f"typedef {bad[0]}", "obligation": f"{tgt}: object pointer typedef " + ("lacks" if tgt == "opencl" else "has") + " the global qualifier", "model": {}, "info": {"root": cls.__name__, "pattern": "typedef", "kind": "typedef"}, "negated_goal": str(bad)})
        else:
            st.d["discharged"] += 1
        ok, err = cgen.host_syntax_check(u.spec_source, tgt)
        st.extra.setdefault("host_compiler_runs", 0)
        st.extra["host_compiler_runs"] += 1
        st.d["obligations"] += 1
        if ok:
            st.d["discharged"] += 1
        else:
            st.d["cex"] += 1
            st.cexs.append({"function": f"unit {tgt}", "obligation": f"{tgt}: specialised source accepted by a host C compiler once target keywords are defined away (auxiliary, concrete)", "model": {}, "info": {"root": cls.__name__, "pattern": "syntax", "kind": "syntax", "ast": None}, "negated_goal": err})
        for e in u.errors:
            st.extra["untranslatable"] += 1
            st.notes.append(f"{tgt}: {e}")


def warmup(history):
    """repeat the generator calls of earlier jobs of a worker (no solver): what they leave behind in the library is part of
    the situation a later counterexample was found in"""
    for pid, label, ast in history:
        try:
            primed = label.endswith(" [after _gen_c_decl({}) / _gen_kernels({})]")
            cls = tg.build(ast)
            if primed:
                for c in sort_classes([cls]):
                    if hasattr(c, "_gen_c_decl"):
                        c._gen_c_decl({})
                    if hasattr(c, "_gen_kernels"):
                        c._gen_kernels({})
            for tgt in ("cpu_serial",) + (("cpu_openmp", "opencl", "cuda") if pid == "C15" else ()):
                cgen.Unit([cls], tgt)
            for path in cls._gen_data_paths():
                capi.methods_from_path(cls, path, default_conf)
        except Exception:  # noqa
            pass


REPLAY = '''#!/usr/bin/env python
"""replay: compile the real generated accessor with cffi and compare with the Python accessors (exit 1 = disagree)"""
import sys
sys.path.insert(0, "/verif")
import os
if not sys.executable.startswith("/verif/.venv"):
    os.execv("/verif/.venv/bin/python", ["/verif/.venv/bin/python"] + sys.argv)
from vx.replay_capi import run
HISTORY = {history}
if HISTORY:
    from checks import capi_tv
    capi_tv.warmup(HISTORY)
AST = {ast}
sys.exit(run(AST, {c_name!r}, {pdesc!r}, {kind!r}, dim={dim}))
'''

REPLAY_C15 = '''#!/usr/bin/env python
"""replay: the specialised accessor source of two targets differs in address arithmetic / qualifiers (exit 1 = differs)"""
import os, sys, re
if not sys.executable.startswith("/verif/.venv"):
    os.execv("/verif/.venv/bin/python", ["/verif/.venv/bin/python"] + sys.argv)
sys.path.insert(0, "/verif")
from vx import typegen as tg, cgen
from xobjects.context import sort_classes
HISTORY = {history}
if HISTORY:
    from checks import capi_tv
    capi_tv.warmup(HISTORY)
AST = {ast}
cls = tg.build(AST)
if {prime}:
    # the cffi declarations / kernel descriptions (generated with an empty configuration) first, as a context may do
    for c in sort_classes([cls]):
        if hasattr(c, "_gen_c_decl"): c._gen_c_decl({{}})
        if hasattr(c, "_gen_kernels"): c._gen_kernels({{}})
name = {c_name!r}
def body(tgt):
    u = cgen.Unit([cls], tgt)
    src = u.spec_source
    m = re.search(r"[^\\n]*\\b" + re.escape(name) + r"\\(.*?\\n}}", src, re.S)
    return m.group(0) if m else None, u
def norm(s):
    for k in ("__global", "__device__", "__kernel", "__global__", "static", "inline", "restrict"):
        s = re.sub(r"\\b" + k + r"\\b", " ", s)
    return " ".join(s.split())
ref, _ = body("cpu_serial")
bad = 0
for tgt in ("cpu_openmp", "opencl", "cuda"):
    b, u = body(tgt)
    if b is None or norm(b) != norm(ref):
        print("VIOLATED:", tgt, "text of", name, "differs beyond qualifiers:\\n", b, "\\nvs\\n", ref); bad = 1
    if tgt == "opencl" and b is not None:
        # every pointer cast/declaration must carry __global
        for m in re.finditer(r"\\(([^()]*?)\\*\\)", b):
            if "__global" not in m.group(1):
                print("VIOLATED: opencl pointer without __global:", m.group(0)); bad = 1
        # ... and every pointer DECLARATION (local variables, return type)
        for m in re.finditer(r"(?m)^[ \\t]*((?:[A-Za-z_]\\w*[ \\t]+)*[A-Za-z_]\\w*)[ \\t]*\\*[ \\t]*[A-Za-z_]\\w*[ \\t]*(=|\\()", b):
            if "__global" not in m.group(1) and m.group(1).split()[0] not in ("return",):
                print("VIOLATED: opencl pointer declaration without __global:", m.group(0)); bad = 1
    ok, err = cgen.host_syntax_check(u.spec_source, tgt)
    if not ok:
        print("VIOLATED: host compiler rejects", tgt, err[:200]); bad = 1
    mk = [n for n, m in u.typedef_marked.items() if m != (tgt == "opencl")]
    if mk:
        print("VIOLATED: typedef qualifier", tgt, mk); bad = 1
sys.exit(bad)
'''


def main(pid):
    tr = tier()
    level = "translation_validation"
    rep = Report(pid, level, tr, technique="generated C (real capi.gen_code + specialize_source text) parsed with pycparser and translated to z3 terms; per generated function the disequality with the documented-layout term / the real Python reader's term / the other target's term is checked unsat for all indices and header words")
    rep.crash_reproduces = True
    cat = tg.catalogue(tr, seed())
    # zero-length static axes next to dynamic ones (only for the C API checks: such arrays hold no element, but their
    # length accessor and header layout are defined)
    I64 = ("scalar", "Int64")
    for extra in (("array", I64, (0, None), None), ("array", I64, (None, 0), (1, 0)), ("array", ("scalar", "Int16"), (None, 0, None), (2, 0, 1)), ("struct", "SZ0", (("z", ("array", I64, (0, None), None)), ("k", ("scalar", "Int8"))))):
        cat.append((tg.describe(extra), extra))
    jobs = [(pid, label, ast, tr, tr == "thorough") for label, ast in cat]
    if pid == "C15":
        # every type a second time, as fresh classes, with the generator's other entry points called first
        jobs += [(pid, label + " [after _gen_c_decl({}) / _gen_kernels({})]", tg.renamed(ast, "p"), tr, False) for label, ast in (cat if tr == "quick" else cat[:120])]
    hist = []
    results = run_parallel(analyse, jobs, histories=hist)
    programs = 0
    agg = {}
    for (job, res, prior) in zip(jobs, results, hist):
        rep.add_engine_result(res)
        ex = res["extra"]
        programs += ex["programs"]
        for k, v in ex.items():
            if isinstance(v, int):
                agg[k] = agg.get(k, 0) + v
            elif isinstance(v, dict):
                d = agg.setdefault(k, {})
                for kk, vv in v.items():
                    d[kk] = d.get(kk, 0) + vv
        for cex in res["cexs"]:
            info = cex.get("info") or {}
            side = info.get("side", "c")
            sig = f"{info.get('kind','?')}:{cex['obligation'].split(':')[0][:70]}:{info.get('pattern','?')}"
            desc = f"{cex['function']} of {job[1]}: {cex['obligation']} (indices {cex.get('model')}); {cex.get('negated_goal','')[:200]}"
            if info.get("ast") is None and pid != "C15":
                # python-side disagreement: replay through the same differential runner on the C function
                continue
            dim = 2
            mv = [v for v in (cex.get("model") or {}).values() if isinstance(v, int)]
            if mv:
                dim = max(2, min(max(mv) + 1, 6))
            hrepr = repr([(jobs[i][0], jobs[i][1], jobs[i][2]) for i in prior])
            if pid == "C15":
                fmt = dict(ast=repr(job[2]), c_name=info.get("c_name", cex["function"]), prime=job[1].endswith("_gen_kernels({})]"))
                text, htext = REPLAY_C15.format(history="[]", **fmt), REPLAY_C15.format(history=hrepr, **fmt)
            else:
                fmt = dict(ast=repr(info["ast"]), c_name=info["c_name"], pdesc=info["pdesc"], kind=info["kind"], dim=dim)
                text, htext = REPLAY.format(history="[]", **fmt), REPLAY.format(history=hrepr, **fmt)
            rep.candidate(sig, desc, text, history_text=htext if prior else None)
    rep.programs = programs
    rep.extra.update(agg)
    rep.extra["types_in_catalogue"] = len(cat)
    rep.extra["rule"] = (
        "one evaluation = one obligation about one generated function (term equality, in-bounds, alignment, overflow, shape) sent to z3 under WF; "
        "non-trivial = negated goal not syntactically false after simplify; distinct = md5(function, obligation, simplified negated goal). "
        "programs = generated C functions translated; disagreements_checked = distinct counterexample signatures replayed with the real compiler"
    )
    rep.bounds = {
        "types": f"{len(cat)} catalogue type expressions (enumerated; depth <= 3{' + seeded random depth <= 4' if tr == 'thorough' else ''})",
        "indices, header words, base, buffer bounds": "unbounded mathematical integers (solver), sizes < 2^62 (A1)",
        "per_query_timeout_ms": QTIMEOUT,
        "outside_claim": ["types outside the catalogue", "values of floating leaves (address/width only)", "the cffi call path (C17)", "real device compilers", "union switch-methods (_methods)"],
    }
    rep.assumptions = [
        "S10: LP64 C semantics; int64 arithmetic as mathematical integers plus an explicit in-range obligation per sub-expression",
        "S11: ld is a function of the address only (getters have no stores, setters store last -- itself checked)",
        "A1: sizes and capacities < 2^62; A2: type names unique inside a catalogue entry",
        "WF(T) along the path as listed in DESIGN.md appendix A (size words, dims >= 0, stride words = strides(dims, order), table entries 8-aligned and inside the parent, reference targets inside the buffer, non-null references on the path)",
        "layoutspec is written from Architecture.md / types.rst / property C05, not from the library's computed attributes",
    ]
    rep.stubs = ["S1 (Int64 codec on ld-buffer)", "S5 (offset-table indexing model)", "S10", "S11"]
    for fn in (capi.gen_code, capi.gen_method_offset, capi.Index_get_c_offset, capi.Field_get_c_offset, capi.Ref_get_c_offset, capi.gen_c_pointed, capi.gen_method_get, capi.gen_method_set, capi.gen_method_getp, capi.gen_method_len, capi.gen_method_typeid, capi.gen_method_member, cgen.specialize_source):
        rep.add_function(fn)
    if pid == "C02":
        import xobjects as xo

        for fn in (xo.Struct._from_buffer, xo.struct.Field.get_offset, xo.Array._from_buffer, xo.Array._get_offset, xo.array.bound_check, xo.array.get_offset, xo.Ref._from_buffer, xo.ref.MetaUnionRef._from_buffer, xo.Array.__len__):
            rep.add_function(fn)
    if programs == 0:
        rep.harness_error("no generated function was translated")
    return rep.finish()
