"""driver of the write-side scenarios (checks/wmode.py): job plans per property, symbolic run,
concrete validation run, replay of counterexamples"""
import itertools
import json
import os
import re
import sys
import time

from vx import typegen as tg, values as V
from vx.report import Report, run_parallel, tier, seed, in_repo as _in_repo
from vx.wenv import ConcEnv
from checks import wmode, hmode, kmode
from vx import hybrid as HY

try:
    import z3
    from vx import symx, symbuf
    from vx.symx import Engine
    from vx.wenv import SymEnv
except Exception:  # pragma: no cover
    z3 = None

CONC_DEFAULTS = {
    1: {"cap": 16384, "chunks": [(43, 6000)], "base": 6403, "capd": 16384, "chunksd": [(29, 9000)]},  # odd offsets on purpose
    0: {"cap": 16384, "chunks": [], "base": 6400, "capd": 16384, "chunksd": []},
    2: {"cap": 16384, "chunks": [(40, 6000), (12000, 16384)], "base": 6400, "capd": 16384, "chunksd": [(24, 5000), (9000, 16000)]},
}


def sample_value(t, gen):
    g = V.Gen(gen.get("variant", 0), gen.get("dim", 2), gen.get("nullrefs", False))
    if t[0] == "kernel":
        return None
    if HY.is_h(t):
        v = g.sample(HY.xo_ast(t))
        if gen.get("defaults"):
            v = hmode.with_defaults(t, v, gen["defaults"])
        return v
    v = g.sample(t)
    return zeroed(t, v) if gen.get("zero") else v


def zeroed(t, v):
    """the value family 'all zeros / empty texts' (same shapes)"""
    k = t[0]
    if v is None:
        return None
    if k == "scalar":
        return 0.0 if t[1].startswith("Float") else 0
    if k == "string":
        return ""
    if k == "struct":
        return {fn: zeroed(ft, v[fn]) for fn, ft in t[2]}
    if k == "array":
        return [zeroed(("array", t[1], t[2][1:], None), x) for x in v] if len(t[2]) > 1 else [zeroed(t[1], x) for x in v]
    if k == "ref":
        return zeroed(t[1], v)
    if k == "uref":
        name, x = v
        m = next(m for m in t[2] if tg.build(m).__name__ == name)
        return (name, zeroed(m, x))
    return v


def norm_what(what):
    """stable part of an obligation text (signature of a finding)"""
    s = what
    for tok in (" (", ": ", " -- "):
        k = s.find(tok)
        if k > 0:
            s = s[:k]
    s = re.sub(r"step \d+", "step", s)
    s = re.sub(r"\d+", "#", s)
    return s.strip()[:90]


def shape_class(t):
    """coarse class of a type for finding signatures"""
    k = t[0]
    if k == "kernel":
        return "K:" + t[1]
    if k == "hybrid":
        return "H:" + shape_class(HY.xo_ast(t))
    if k == "scalar":
        return "s"
    if k == "string":
        return "Str"
    if k == "struct":
        return "S{" + ",".join(sorted(set(shape_class(ft) for _, ft in t[2]))) + "}"
    if k == "array":
        nd = len(t[2])
        o = "" if t[3] is None or list(t[3]) == list(range(nd)) else "o"
        return f"A{nd}{o}[{shape_class(t[1])}]"
    if k == "ref":
        return f"R[{shape_class(t[1])}]"
    if k == "uref":
        return "U"
    return "?"


class JobTimeout(BaseException):
    pass


def JOB_TIMEOUT():
    return 90 if tier() == "quick" else 300


def _alarm(signum, frame):
    raise JobTimeout()


def with_timeout(fn, seconds, *a):
    """a broken tree must produce a verdict, not a hang (e.g. loops over a corrupted dimension word)"""
    import signal

    old = signal.signal(signal.SIGALRM, _alarm)
    signal.setitimer(signal.ITIMER_REAL, seconds)
    try:
        return fn(*a)
    finally:
        signal.setitimer(signal.ITIMER_REAL, 0)
        signal.signal(signal.SIGALRM, old)


def _timeout_result(job, why):
    st = symx.Stats().as_dict()
    st.update(name=f"{job[1]}|{job[2]}", cexs=[], samples=[], reach={"end": 1}, notes=[why + ": counted as inconclusive"], hashes=[], job=list(job), wall=0.0)
    st["truncated"] = 1
    return st


def run_sym(job):
    try:
        return with_timeout(_run_sym, job[5].get("job_timeout_s", JOB_TIMEOUT()), job)
    except JobTimeout:
        st = symx.Stats().as_dict()
        st.update(name=f"{job[1]}|{job[2]}", cexs=[], samples=[], reach={"end": 1}, notes=[f"job timed out after {job[5].get('job_timeout_s', JOB_TIMEOUT())} s: counted as inconclusive"], hashes=[], job=list(job), wall=float(job[5].get("job_timeout_s", JOB_TIMEOUT())))
        st["truncated"] = 1
        return st


def _run_sym(job):
    pid, scen, label, t, gen, cfg = job
    name = f"{scen}|{label}|{json.dumps(gen, sort_keys=True)}|{json.dumps(cfg, sort_keys=True, default=str)}"
    e = Engine(name, timeout_ms=cfg.get("timeout_ms", 20000), max_decisions=cfg.get("max_decisions", 4000), max_paths=cfg.get("max_paths", 1500), max_cex=4)
    e.count_paths_as_cases = True
    v = sample_value(t, gen)
    fn = wmode.SCENARIOS[scen]
    kind = cfg.get("kind", "BufferNumpy")

    def body(e):
        env = SymEnv(e, kind)
        import xobjects.hybrid_class as xh

        saved_default = xh.context_default
        xh.context_default = env.context("default")  # to_dict(copy_to_cpu=True) copies into the "default context"
        try:
            try:
                fn(env, t, v, cfg)
            finally:
                xh.context_default = saved_default
        except Exception as ex:  # the library raised where the scenario expects it to work
            import traceback

            tb = traceback.extract_tb(ex.__traceback__)
            where = next((f"{os.path.basename(f.filename)}:{f.lineno}" for f in reversed(tb) if _in_repo(f.filename)), "harness")
            solverish = type(ex).__module__.split(".")[0] in ("z3", "ctypes") or type(ex).__name__ in ("Z3Exception", "ArgumentError")
            if where == "harness" or solverish:
                # the harness (or the solver binding) failed, not the library: inconclusive for this path, never a finding
                e.notes.append("harness exception: " + "".join(traceback.format_exception_only(type(ex), ex)).strip()[:200] + " @ " + "; ".join(f"{os.path.basename(f.filename)}:{f.lineno}" for f in tb[-3:]))
                e.stats.unknown += 1
                e.reach()
                return
            env.check(False, f"{pid} the operation raised {type(ex).__name__} ({where}: {str(ex)[:80]})")
            e.reach()

    t0 = time.time()
    with symbuf.patched():
        e.explore(body)
    res = e.result()
    res["job"] = [pid, scen, label, t, gen, cfg]
    res["wall"] = time.time() - t0
    return res


def run_conc(job, model=None, kind=None):
    pid, scen, label, t, gen, cfg = job
    v = sample_value(t, gen)
    kind = kind or cfg.get("kind", "BufferNumpy")
    env = ConcEnv(model=model, kind=kind, defaults=CONC_DEFAULTS.get(cfg.get("N", 1), CONC_DEFAULTS[1]))
    try:
        wmode.SCENARIOS[scen](env, t, v, cfg)
    except Exception as ex:
        import traceback

        tb = traceback.extract_tb(ex.__traceback__)
        where = next((f"{os.path.basename(f.filename)}:{f.lineno}" for f in reversed(tb) if _in_repo(f.filename)), "harness")
        if where == "harness":
            # the harness failed, not the library (as in the symbolic run): no verdict for this scenario, never a finding
            env.harness_gap = f"{type(ex).__name__}: {str(ex)[:120]}"
        else:
            env.failures.append((f"{pid} the operation raised {type(ex).__name__} ({where}: {str(ex)[:80]})", None))
    return env


def _conc_job(arg):
    job, kind = arg
    try:
        env = with_timeout(run_conc, 60, job, None, kind)
    except JobTimeout:
        return [(f"{job[0]} the scenario did not finish within 60 s on a real {kind} (an accessor loops?)", kind)], None
    return [(w, kind) for w, _ in env.failures], env.unreachable


REPLAY = '''#!/usr/bin/env python
"""replay of a counterexample of the write-side checks on REAL CPU buffers (exit 1 = property violated)"""
import os, sys
if not sys.executable.startswith("/verif/.venv"):
    os.execv("/verif/.venv/bin/python", ["/verif/.venv/bin/python"] + sys.argv)
sys.path.insert(0, "/verif")
import json
from checks import wrun
JOB = {job}
MODEL = {model}
KIND = {kind!r}
WANT = {want!r}
HISTORY = {history}
sys.exit(wrun.replay(JOB, MODEL, KIND, WANT, HISTORY))
'''


def replay(job, model, kind, want, history=()):
    # the scenarios the finding worker had executed before this one, repeated concretely first (their outcome is ignored)
    for hj in history:
        hj = list(hj)
        hj[3] = _tuplify(hj[3])
        for k in [kind] if kind else ["BufferNumpy"]:
            try:
                with_timeout(run_conc, 60, hj, None, k)
            except BaseException as ex:  # noqa
                if not isinstance(ex, (Exception, JobTimeout)):
                    raise
    job = list(job)
    job[3] = _tuplify(job[3])
    kinds = [kind] if kind else ["BufferNumpy", "BufferByteArray"]
    rc = 0
    for k in kinds:
        try:
            env = with_timeout(run_conc, 120, job, model, k)
        except JobTimeout:
            print(f"VIOLATED [{k}]: the scenario did not finish within 120 s")
            return 1
        if env.unreachable:
            print("UNREACHABLE pre-state:", env.unreachable)
            return 2
        for w, d in env.failures:
            print(f"VIOLATED [{k}]: {w}")
            if want is None or norm_what(w) == want:
                rc = 1
        if env.failures and rc == 0:
            print("(other obligations failed than the one reported; counted as reproduced)")
            rc = 1
    if rc == 0:
        print("property holds on this case")
    return rc


def _tuplify(x):
    if isinstance(x, list):
        return tuple(_tuplify(y) for y in x)
    return x


# --------------------------------------------------------------------------
# job plans
def has_kind(t, kinds):
    k = t[0]
    if k in kinds:
        return True
    if k == "struct":
        return any(has_kind(ft, kinds) for _, ft in t[2])
    if k == "array":
        return has_kind(t[1], kinds)
    if k == "ref":
        return has_kind(t[1], kinds)
    if k == "uref":
        return any(has_kind(m, kinds) for m in t[2])
    return False


PLACEMENTS_Q = [
    dict(placement="default", N=1, alignment=8),
    dict(placement="explicit", N=1, alignment=1),
    dict(placement="context"),
    dict(placement="packed", N=1, alignment=64),
    dict(placement="grown", alignment=8),
    dict(placement="default", N=0, alignment=1, grow_step="sym"),
    # "aligned" with a default alignment below the slot size: the allocator may return any offset (M10-C01)
    dict(placement="aligned", N=1, alignment=1),
]
PLACEMENTS_T = PLACEMENTS_Q + [
    dict(placement="default", N=2, alignment=8),
    dict(placement="aligned", N=1, alignment=64),
    dict(placement="default", N=1, alignment=1, kind="BufferByteArray"),
    dict(placement="explicit", N=2, alignment=8),
    dict(placement="aligned", N=2, alignment=2),
    dict(placement="packed", N=1, alignment=4),
]


def plan_hybrid(pid, tr, sd):
    pls = PLACEMENTS_Q if tr == "quick" else PLACEMENTS_T
    jobs = []
    g0 = dict(variant=0, dim=2)
    for i, (label, spec) in enumerate(HY.catalogue(tr)):
        if pid == "C18":
            hs = [
                [("set", 0), ("setx", 1), ("seta", 0), ("set", 2)],
                [("assign_nested", 0, "other"), ("set", 1), ("assign_nested", 1, "same")],
                [("assign_ref", 0, "same"), ("setx", 0), ("assign_ref", 1, "other")],
                [("copy", "same"), ("set", 0), ("copy", "other")],
                [("move", "other"), ("set", 1), ("seta", 1, "nd"), ("move_nested", 0)],
                [("assign_nested", 0, "same"), ("move", "other"), ("setx", 2), ("copy", "default")],
                [("assign_ref", 0, "other"), ("set", 0)],
                [("move_nested", 1), ("move", "same"), ("assign_nested", 1, "other")],
                [("assign_ref", 0, "same"), ("assign_ref_plain", 0, "raw"), ("set", 0), ("assign_ref_plain", 0, "none")],
                [("assign_ref_plain", 1, "raw"), ("assign_ref", 1, "same"), ("assign_ref_plain", 1, "none"), ("assign_ref", 0, "same")],
                # array attributes read, then the buffer grows under the object (a copy into its own buffer), then the
                # elements are written through the underlying struct and through the attribute
                [("seta", 0), ("copy", "same"), ("setxa", 0), ("copy", "same"), ("seta", 1), ("setxa", 1)],
            ]
            if HY.has_href(spec):
                # reference fields that let go of what they were bound to (M11-C18)
                hs += [[("ref_release", 0), ("ref_part_release", 0), ("set", 1)], [("ref_release", 1, "rebind"), ("assign_ref_plain", 0, "none"), ("move_nested", 0)]]
            if tr == "thorough":
                hs += [
                    [("seta", 0), ("move", "other"), ("seta", 0, "nd"), ("copy", "same"), ("assign_nested", 0, "other")],
                    [("assign_ref", 1, "same"), ("copy", "other"), ("assign_ref", 0, "same"), ("move", "other")],
                    [("setx", 0), ("setx", 1), ("move", "other"), ("move", "other"), ("set", 3)],
                ]
            for k, h in enumerate(hs):
                for nested in (("dict", "dressed") if tr == "thorough" else (("dict", "dressed")[(i + k) % 2],)):
                    jobs.append((pid, "c18", label, spec, g0, dict(pls[(i + k) % 2] if tr == "quick" else pls[(i + k) % len(pls)], history=h, nested=nested)))
                # running out of space / growth while the history runs: capacity 0 (every allocation grows), and an
                # arbitrary free chunk that may or may not fit each allocation (solver forks per allocation)
                jobs.append((pid, "c18", label, spec, g0, dict(pls[4], history=h, nested="dict")))
                if tr == "thorough" or (i + k) % 4 == 0:
                    jobs.append((pid, "c18", label, spec, g0, dict(placement="default", N=1, alignment=8, tight=True, history=h, nested="dressed", max_paths=200)))
        if pid == "C19":
            gs = [g0, dict(g0, defaults="all"), dict(g0, defaults="nested"), dict(variant=1, dim=1), dict(variant=0, dim=0), dict(variant=2, dim=3)]
            if tr == "quick":
                gs = gs[:3] + [gs[3 + i % 3]]
            if any(HY.is_h(ft) for _, ft, _d in spec[2]):
                gs = gs + [dict(g0, defaults="nested0")]
            if "Float" in label and "=" in label:
                gs = gs + [dict(g0, defaults="near")]
            if any(d is not None and ft[0] == "array" for _, ft, d in spec[2]):
                gs = gs + [dict(g0, defaults="bcast"), dict(variant=0, dim=1), dict(variant=0, dim=3)]
            for k, g in enumerate(gs):
                jobs.append((pid, "c19h", label, spec, g, dict(pls[(i + k) % 2], copy_to_cpu=(k % 2 == 0))))
                if tr == "thorough":
                    jobs.append((pid, "c19h", label, spec, g, dict(pls[(i + k + 1) % 2], copy_to_cpu=(k % 2 == 1))))
            jobs.append((pid, "c19h", label, spec, g0, dict(pls[4], copy_to_cpu=True)))
            jobs.append((pid, "c19h", label, spec, g0, dict(placement="default", N=1, alignment=8, tight=True, second="grown", copy_to_cpu=(i % 2 == 0), max_paths=200)))
            if HY.has_href(spec):
                jobs.append((pid, "c19h", label, spec, g0, dict(pls[i % 2], copy_to_cpu=False, refs="value")))
        if pid == "C20":
            for k, g in enumerate([g0, dict(variant=1, dim=1)] if tr == "quick" else [g0, dict(variant=1, dim=1), dict(variant=0, dim=0), dict(variant=2, dim=3)]):
                jobs.append((pid, "c20h", label, spec, g, dict(pls[(i + k) % 2])))
            jobs.append((pid, "c20h", label, spec, g0, dict(pls[4])))
            if tr == "thorough":
                jobs.append((pid, "c20h", label, spec, g0, dict(placement="default", N=1, alignment=8, tight=True, max_paths=300)))
    out = []
    for j in jobs:
        cfg = j[5]
        if cfg.get("placement") == "context":
            cfg = dict(cfg, placement="default", N=1, alignment=8)
        if cfg.get("N", 0) >= 1 and cfg.get("placement") != "grown" and not cfg.get("tight"):
            cfg = dict(cfg, roomy=1 << 14)
        out.append(j[:5] + (cfg,))
    return out


def plan_kernel(pid, tr, sd):
    pls = PLACEMENTS_Q if tr == "quick" else PLACEMENTS_T
    hs = [[], [("grow",)], [("alloc",), ("more",)], [("more",), ("grow",), ("alloc",)]]
    jobs = []
    for gi, group in enumerate(("objects", "arrays", "scalars", "arity")):
        for k, h in enumerate(hs if group in ("objects", "arrays") else hs[:1]):
            for pi, pl in enumerate([pls[0], pls[4]] + ([pls[3], dict(placement="default", N=2, alignment=8), dict(placement="default", N=1, alignment=1, kind="BufferNumpy")] if tr == "thorough" else [])):
                if pl.get("placement") not in ("default", "grown", "packed"):
                    continue
                cfg = dict(pl, history=h, omp=(0 if (gi + k + pi) % 2 == 0 else 2), kinds=["BufferNumpy"], max_paths=300)
                if cfg.get("placement") == "packed":
                    cfg["placement"] = "default"
                if cfg.get("N", 0) >= 1 and cfg.get("placement") != "grown":
                    cfg["roomy"] = 1 << 14
                jobs.append((pid, "c17", group, ("kernel", group), dict(variant=0, dim=2), cfg))
    return jobs


def plan(pid, tr, sd):
    if pid == "C17":
        return plan_kernel(pid, tr, sd)
    if pid in ("C18",):
        return plan_hybrid(pid, tr, sd)
    hjobs = plan_hybrid(pid, tr, sd) if pid in ("C19", "C20") else []
    return hjobs + plan_xo(pid, tr, sd)


def plan_xo(pid, tr, sd):
    cat = tg.catalogue("quick", sd)
    if tr == "thorough":
        import random

        rng = random.Random(sd)
        extra = []
        for _ in range(40):
            a = tg.random_type(rng, 3)
            if a[0] in ("scalar", "string", "ref"):
                a = tg.struct([("f", a), ("g", tg.random_type(rng, 2))])
            extra.append((tg.describe(a), a))
        cat = cat + extra
    if pid in ("C01", "C03", "C05", "C09"):
        cat = cat + [("String", tg.STR)]  # a string on its own (constructed, copied, decoded as a top-level object)
    pls = PLACEMENTS_Q if tr == "quick" else PLACEMENTS_T
    jobs = []
    gens = [dict(variant=0, dim=2)]
    gens_more = [dict(variant=0, dim=0), dict(variant=1, dim=1), dict(variant=2, dim=3), dict(variant=3, dim=2, nullrefs=True)]

    def rot(i, seq, n):
        return [seq[(i + k) % len(seq)] for k in range(n)]

    for i, (label, t) in enumerate(cat):
        npl = 2 if tr == "quick" else 4
        if pid == "C01":
            for pl in rot(i, pls, npl):
                jobs.append((pid, "c01", label, t, gens[0], dict(pl, form="python")))
            for g in rot(i, gens_more, 1 if tr == "quick" else 4):
                jobs.append((pid, "c01", label, t, g, dict(pls[(i + 1) % len(pls)], form="python")))
            if has_kind(t, ("array",)):
                for form in ("ndarray", "ndarray_other", "objarray"):
                    jobs.append((pid, "c01", label, t, gens[0], dict(pls[(i + 2) % len(pls)], form=form)))
                jobs.append((pid, "c01", label, t, dict(variant=0, dim=3), dict(pls[i % len(pls)], form="ndarray")))
            if t[0] == "struct":
                jobs.append((pid, "c01", label, t, gens[0], dict(pls[i % 2], form="kwargs")))
                if any(ft[0] == "scalar" for _, ft in t[2]):
                    jobs.append((pid, "c01", label, t, gens[0], dict(pls[(i + 1) % 2], form="omit")))
            jobs.append((pid, "c01x", label, t, gens[0], dict(pls[i % 2])))
            if wmode.has_string(t):
                jobs.append((pid, "c01cap", label, t, gens[0], dict(pls[i % 2])))
                jobs.append((pid, "c01cap", label, t, gens[0], dict(pls[4])))
        elif pid == "C05":
            for pl in rot(i, [pls[0], pls[1], pls[2]], 1 if tr == "quick" else 3):
                jobs.append((pid, "c05", label, t, gens[0], dict(pl)))
            for g in rot(i, gens_more, 2 if tr == "quick" else 4):
                jobs.append((pid, "c05", label, t, g, dict(pls[i % 2])))
            if has_kind(t, ("array",)):
                jobs.append((pid, "c05", label, t, gens[0], dict(pls[1], form="ndarray")))
            if wmode.has_string(t):
                jobs.append((pid, "c05", label, t, gens[0], dict(pls[i % 2], capform=True)))
            if t[0] == "array" and t[1][0] == "scalar" and len(t[2]) >= 2 and any(d is None for d in t[2]):
                jobs.append((pid, "c05np", label, t, gens[0], dict(pls[i % 2])))
        elif pid == "C03":
            for pl in rot(i, pls, npl):
                jobs.append((pid, "c03", label, t, gens[0], dict(pl)))
            for g in rot(i, gens_more, 1 if tr == "quick" else 3):
                jobs.append((pid, "c03", label, t, g, dict(pls[i % 2])))
        elif pid == "C06":
            for pl in rot(i, [pls[0], pls[1], pls[4]], 1 if tr == "quick" else 3):
                jobs.append((pid, "c06", label, t, gens[0], dict(pl)))
            for g in rot(i, gens_more, 1 if tr == "quick" else 3):
                jobs.append((pid, "c06", label, t, g, dict(pls[1])))
        elif pid == "C09":
            for k, where in enumerate(("same", "other", "context")):
                jobs.append((pid, "c09", label, t, gens[0], dict(pls[(i + k) % 2], copy_to=where)))
                jobs.append((pid, "c09", label, t, gens[0], dict(pls[(i + k + 1) % 2], copy_to=where, src="view")))
                if t[0] in ("struct", "array") and has_kind(t, ("struct", "array")):
                    jobs.append((pid, "c09n", label, t, gens[0], dict(pls[(i + k) % 2], copy_to=where)))
            if wmode.has_string(t) and t[0] != "uref":
                for k, where in enumerate(("same", "other", "context") if tr == "thorough" else (("same", "other", "context")[i % 3],)):
                    jobs.append((pid, "c09", label, t, gens[0], dict(pls[(i + k) % 2], copy_to=where, src="shortened")))
            if tr == "thorough":
                jobs.append((pid, "c09", label, t, gens_more[3], dict(pls[0], copy_to="other")))
                jobs.append((pid, "c09", label, t, gens_more[2], dict(pls[1], copy_to="same")))
        elif pid == "C10":
            hs = [
                [("set", 0, "handle"), ("set", 1, "view")],
                [("set", 2, "view"), ("grow",), ("set", 0, "handle")],
                [("setc", 0, "handle"), ("set", 3, "view")],
                [("grow",), ("setc", 1, "view"), ("set", 1, "handle")],
            ]
            if tr == "thorough":
                hs += [[("set", k, "view"), ("setc", k, "handle"), ("grow",), ("set", k + 1, "handle")] for k in range(3)]
            if has_kind(t, ("array",)):
                hs.append([("seta", 0, "handle"), ("seta", 1, "view"), ("grow",), ("seta", 2, "handle")])
            hs.append([("setr", 0, "handle"), ("set", 0, "view"), ("setr", 1, "view")])
            hs.append([("setx", 0, "handle"), ("grow",), ("setx", 1, "view")])
            hs.append([("setx", 2, "view"), ("setr", 2, "handle")])
            if wmode.has_string(t):
                # strings: shorter value, empty value, full-length value again -- each must read back exactly
                hs.append([("sets", 0, "handle"), ("sets", 0, "view"), ("sets", 0, "handle")])
                hs.append([("sets", 1, "view"), ("grow",), ("sets", 1, "handle"), ("sets", 2, "view")])
            for k, h in enumerate(hs):
                jobs.append((pid, "c10", label, t, gens[0], dict(pls[(i + k) % 2], history=h)))
            if t[0] == "array" and t[1][0] == "scalar" and any(d is None for d in t[2]):
                jobs.append((pid, "c10np", label, t, dict(variant=0, dim=40 if len(t[2]) == 1 else 6), dict(pls[i % 2])))
        elif pid == "C11":
            ms = ["index", "owner", "scalar_array"]
            if has_kind(t, ("struct",)):
                ms += ["struct_partial", "struct_instance_size"]
            if wmode.has_string(t):
                ms.append("string")
            if has_kind(t, ("array",)):
                ms += ["array_len", "array_bad_item", "bigger_items", "array_shape_instance", "negative_dim", "update_int", "ndarray_extra_axis"]
            if has_kind(t, ("uref",)):
                ms.append("union")
            for k, mis in enumerate(ms):
                jobs.append((pid, "c11", label, t, gens[0], dict(pls[(i + k) % 2], misuse=mis)))
            if has_kind(t, ("array",)):
                jobs.append((pid, "c11", label, t, dict(variant=0, dim=0), dict(pls[i % 2], misuse="empty_shape")))
        elif pid == "C19":
            # reference-free structs and one-dimensional arrays
            if tg.has_ref(t) or not (t[0] == "struct" or (t[0] == "array" and len(t[2]) == 1)):
                continue
            for pl in rot(i, [pls[0], pls[1], pls[4]], 1 if tr == "quick" else 3):
                jobs.append((pid, "c19j", label, t, gens[0], dict(pl)))
            for g in rot(i, gens_more[:3], 1 if tr == "quick" else 3):
                jobs.append((pid, "c19j", label, t, g, dict(pls[i % 2])))
            # zeros and empty texts (values a truthiness test confuses with "absent")
            jobs.append((pid, "c19j", label, t, dict(variant=0, dim=2, zero=True), dict(pls[(i + 1) % 2])))
            if tr == "thorough" or i % 3 == 0:
                # an arbitrary (possibly too small) free chunk: the solver forks on every allocation
                jobs.append((pid, "c19j", label, t, gens[0], dict(placement="default", N=1, alignment=8, tight=True, second="grown", max_paths=200)))
        elif pid == "C20":
            if t[0] not in ("struct", "array"):
                continue
            for pl in rot(i, [pls[0], pls[1], pls[4]], 1 if tr == "quick" else 3):
                jobs.append((pid, "c20", label, t, gens[0], dict(pl)))
            for g in rot(i, gens_more, 1 if tr == "quick" else 3):
                jobs.append((pid, "c20", label, t, g, dict(pls[i % 2])))
        elif pid == "C08":
            if not tg.has_ref(t) or t[0] not in ("struct", "array"):
                continue
            hs = [
                [("bind_existing", 0, 0), ("grow",), ("bind_null", 0)],
                [("bind_value", 0, 1), ("alloc_until_growth",), ("bind_existing", 1, 0)],
                [("bind_foreign", 0, 0), ("bind_null", 1), ("grow",)],
                [("bind_null", 0), ("bind_value", 0, 0), ("bind_existing", 0, 1)],
            ]
            # zero-length targets (falsy objects) and bound union-reference objects as the value
            hs.append([("bind_existing", 0, 1, "empty"), ("bind_value", 1, 0, "empty"), ("bind_foreign", 0, 0, "empty"), ("grow",)])
            hs.append([("bind_existing", 1, 0, "empty"), ("bind_uref_instance", 0, 0), ("bind_uref_instance", 1, 1), ("bind_null", 0)])
            # plain data shaped exactly like the current referent (right after construction, and after binding an existing object)
            hs.append([("bind_value", 0, 0, "same"), ("bind_existing", 0, 0), ("bind_value", 0, 0, "same"), ("grow",)])
            hs.append([("bind_existing", 1, 1), ("bind_value", 1, 1, "same"), ("bind_value", 0, 0, "same")])
            if tr == "thorough":
                hs += [[("bind_existing", k, 1), ("bind_foreign", k + 1, 0), ("alloc_until_growth",)] for k in range(2)]
                hs += [[("bind_value", k, k, "empty"), ("bind_uref_instance", k, 1 - k), ("grow",), ("bind_existing", k + 1, k, "empty")] for k in range(2)]
            for k, h in enumerate(hs):
                many = t[0] == "array" or sum(1 for _ in wmode.ref_slots(t, sample_value(t, gens[0]))) > 3
                for pl in ([pls[0], pls[4]] if tr == "quick" or many or k >= 4 else [pls[0], pls[4], pls[5]]):
                    jobs.append((pid, "c08", label, t, gens[0], dict(pl, history=h, max_paths=400)))
    if tr == "thorough":
        # thorough: running out of space in the first chunk is explored (no roomy assumption) for types without
        # references; scenarios with many allocations keep the assumption except in the growth placements
        out = []
        for j in jobs:
            cfg = j[5]
            heavy = tg.has_ref(j[3]) or pid in ("C09", "C10", "C08", "C20", "C19")
            if heavy and cfg.get("N", 0) >= 1 and cfg.get("placement") != "grown" and not cfg.get("tight"):
                j = j[:5] + (dict(cfg, roomy=1 << 14),)
            out.append(j)
        jobs = out
    if tr == "quick":
        # bound of the quick tier: for reference-bearing types and multi-object scenarios (many
        # allocations) the first free chunk is assumed large enough for the whole scenario; running
        # out of space is explored by the growth placements ("grown", N=0 with a symbolic grow step)
        out = []
        for j in jobs:
            cfg = j[5]
            heavy = tg.has_ref(j[3]) or pid in ("C09", "C10", "C08", "C06", "C03", "C11", "C20", "C19")
            if heavy and cfg.get("N", 0) >= 1 and cfg.get("placement") != "grown" and not cfg.get("tight"):
                j = j[:5] + (dict(cfg, roomy=1 << 14),)
            elif tg.has_ref(j[3]) and cfg.get("grow_step") == "sym" and pid != "C08":
                # one fork per allocation and growth decision: for reference-bearing types the quick tier uses
                # the deterministic growth placement (capacity 0, every allocation grows) instead
                j = j[:5] + (dict(placement="grown", alignment=8, **{k: v for k, v in cfg.items() if k not in ("placement", "N", "alignment", "grow_step")}),)
            out.append(j)
        jobs = out
    return jobs


def xo_array_fns():
    import xobjects as xo
    import xobjects.array as xa

    return [xo.array.MetaArray.__new__, xa.get_strides, xa.get_offset, xa.bound_check, xa.rewrite_item, xo.struct.MetaStruct.__new__, xo.Struct._set_offsets, xo.string.MetaString._inspect_args]


LEVELS = {p: "model_checking" for p in ("C01", "C03", "C05", "C06", "C08", "C09", "C10", "C11", "C20", "C18", "C19", "C17")}


def main(pid):
    tr = tier()
    sd = seed()
    rep = Report(pid, "model_checking", tr, technique="bounded symbolic execution of the real constructors/accessors on buffers with symbolic placement (capacity, free list, explicit offset, growth, prior contents as z3 integers / poison); reads resolved against a write log by solver queries")
    rep.replay_py = "/verif/.venv/bin/python"
    jobs = plan(pid, tr, sd)
    if not jobs:
        rep.harness_error("empty job plan")
        return rep.finish()
    hist = []
    results = run_parallel(run_sym, jobs, fallback=lambda job: _timeout_result(job, "no result before the check's deadline (worker lost?)"), histories=hist)
    slow = sorted(results, key=lambda r: -r["wall"])[:3]
    for r in results[:: max(1, len(results) // 6)][:6]:
        j = r["job"]
        rep.samples.append({"case": f"scenario {j[1]} on type {j[2]}", "value_sample": j[4], "placement_and_scenario": j[5], "feasible_paths(placement classes)": r["paths"], "obligations": r["obligations"], "discharged": r["discharged"], "solver_queries": r["queries"]})
    for res, prior in zip(results, hist):
        rep.add_engine_result(res)
        job = res["job"]
        for cex in res["cexs"]:
            sig = f"{job[1]}:{norm_what(cex['obligation'])}:{shape_class(job[3])}"
            desc = f"{job[2]} [{json.dumps(job[5], default=str)} {json.dumps(job[4])}]: {cex['obligation']} with placement {cex['model']}"
            kind = job[5].get("kind", "BufferNumpy")
            fmt = dict(job=repr(job), model=repr(cex["model"]), kind=kind, want=norm_what(cex["obligation"]))
            rep.candidate(sig, desc, REPLAY.format(history="[]", **fmt), history_text=REPLAY.format(history=repr([jobs[i] for i in prior]), **fmt) if prior else None)
    # mode P: the planners/writers/readers on symbolic dimensions, sizes, indices and string lengths
    from checks import pmode

    pjobs = pmode.jobs(pid, tr)
    if pjobs:
        phist = []
        pres = run_parallel(pmode.dispatch, pjobs, histories=phist)
        for (kind, cfg), res, prior in zip(pjobs, pres, phist):
            rep.add_engine_result(res)
            for cex in res["cexs"]:
                sig = f"P-{kind}:{norm_what(cex['obligation'])}"
                fmt = dict(kind=kind, cfg=tuple(cfg), detail=cex.get("detail"))
                rep.candidate(sig, f"{res['name']}: {cex['obligation']} with {json.dumps(cex.get('detail'), default=str)}", pmode.REPLAY.format(history="()", **fmt), history_text=pmode.REPLAY.format(history=repr([(pjobs[i][0], tuple(pjobs[i][1])) for i in prior]), **fmt) if prior else None)
        rep.extra["mode_P_harnesses"] = len(pjobs)
        for fn in (xo_array_fns()):
            rep.add_function(fn)
    # validation of the storage model (S9) and of the harness: the same scenarios, concretely, on both real buffer kinds
    step = 1 if tr == "thorough" else 2
    vjobs = [(j, k) for i, j in enumerate(jobs) if i % step == 0 for k in j[5].get("kinds", ("BufferNumpy", "BufferByteArray"))]
    vhist = []
    vres = run_parallel(_conc_job, vjobs, histories=vhist)
    nval = 0
    for (job, kind), (fails, unreachable), prior in zip(vjobs, vres, vhist):
        nval += 1
        for w, k in fails:
            sig = f"{job[1]}:{norm_what(w)}:{shape_class(job[3])}"
            desc = f"{job[2]} [{json.dumps(job[5], default=str)} {json.dumps(job[4])}] on a real {k}: {w}"
            fmt = dict(job=repr(list(job)), model=repr({}), kind=k, want=norm_what(w))
            rep.candidate(sig, desc, REPLAY.format(history="[]", **fmt), history_text=REPLAY.format(history=repr([list(vjobs[i][0]) for i in prior]), **fmt) if prior else None)
    rep.validated += nval
    rep.extra["rule"] = (
        "one evaluation = one proof obligation (path condition /\\ negated goal) decided by z3 or, for value comparisons, by evaluating the concrete read-back on that path; "
        "a case = one (scenario job, feasible path) = one type x value x input form x class of placements; non-trivial = the path ran the real constructor/accessors on a symbolically placed buffer and reached its obligations; "
        "distinct = md5 of (job, decision trail) plus md5 of every obligation whose negation still mentions a solver variable after simplification"
    )
    rep.extra["concrete_validation_runs"] = nval
    rep.extra["scenario_jobs"] = len(jobs)
    rep.extra["slowest_jobs"] = [f"{r['job'][1]} {r['job'][2][:50]} {r['wall']:.1f}s paths={r['paths']}" for r in slow]
    rep.extra["types_in_catalogue"] = len(set(j[2] for j in jobs))
    import xobjects as xo

    for fn in (xo.Struct.__init__, xo.Struct._to_buffer, xo.Struct._from_buffer, xo.struct.Field.__get__, xo.struct.Field.__set__, xo.struct.Field.get_offset, xo.Struct._update, xo.Array.__init__, xo.Array._inspect_args, xo.Array._to_buffer, xo.Array._from_buffer, xo.Array.__getitem__, xo.Array.__setitem__, xo.Array._update, xo.Array._get_offset, xo.Array.to_nplike, xo.String.__init__, xo.string.MetaString._to_buffer, xo.string.MetaString._from_buffer, xo.Ref._to_buffer, xo.Ref._from_buffer, xo.ref.MetaUnionRef._to_buffer, xo.ref.MetaUnionRef._from_buffer, xo.UnionRef.get, xo.typeutils.allocate_on_buffer, xo.context.XBuffer.allocate, xo.context.XBuffer.grow, xo.context.XBuffer.update_from_xbuffer):
        rep.add_function(fn)
    import xobjects.hybrid_class as xh
    import xobjects.context_cpu as xcc
    import xobjects.context as xc

    extra_fns = {
        "C17": [xcc.KernelCpu.__call__, xcc.KernelCpu.to_function_arg, xc.KernelDispatcher.__call__, xc.Arg.get_c_type],
        "C18": [xh._FieldOfDressed.__get__, xh._FieldOfDressed.__set__, xh.MetaHybridClass.__new__, xh.HybridClass.move, xh.HybridClass.copy, xh.HybridClass._reinit_from_xobject, xh.HybridClass.xoinitialize],
        "C19": [xh.HybridClass.to_dict, xh.HybridClass.from_dict, xh.HybridClass._static_from_dict, xo.Struct._to_json, xo.Array._to_json, xo.struct.Field.get_default, xo.typeutils.dispatch_arg],
        "C20": [xo.Struct.__getstate__, xo.Struct.__setstate__, xh.HybridClass.__getstate__, xh.HybridClass.__setstate__],
    }
    for fn in extra_fns.get(pid, []):
        rep.add_function(fn)
    rep.bounds = {
        "types": f"{rep.extra['types_in_catalogue']} type expressions (enumerated)",
        "shapes": "dynamic axes of length 0..3 (enumerated), static axes as declared",
        "values": "4 sample families: ordinary, type extremes / non-finite floats / multi-byte UTF-8, empty, null references (enumerated)",
        "placement": "SOLVER: capacity, free-list chunk bounds (N<=1 quick, <=2 thorough), explicit offset, grow step, growth amounts -- unbounded integers < 2^62; prior contents = poison; enumerated: placement form, alignment in {1,8,64}, buffer kind",
        "histories": "<= 3 (quick) / 4 (thorough) steps, enumerated",
        "outside_claim": ["types/shapes/values outside the catalogue", "non-contiguous source ndarrays (storage model S9 represents flatten+tobytes)", "GPU buffers"],
    }
    if pid == "C17":
        rep.bounds["types"] = "6 xobject types (static struct, struct with dynamic array + nested struct, 1-D and 2-D scalar arrays, Int32 array, struct holding a union reference), 20 probe kernels; 10 scalar types at their extremes (enumerated)"
        rep.bounds["histories"] = "creation of 8 objects in one buffer, then <= 3 steps of {grow by a SOLVER amount, allocate a SOLVER size, three more arrays}; serial and OpenMP (2 threads) contexts"
        rep.bounds["outside_claim"] = ["what the compiled C code does with the pointers (concrete probe kernels only)", "scalar conversion and refusals are decided by execution, not by the solver", "GPU contexts", "BufferByteArray as kernel argument storage"]
        rep.stubs = ["S1", "S2", "S9", "S15"]
    if pid in ("C18", "C19", "C20"):
        rep.bounds["types"] = f"{rep.extra['types_in_catalogue']} type expressions / hybrid class definitions (enumerated; hybrid: scalars with and without declared defaults, strings, scalar arrays of 1-3 axes with and without declared defaults, nested hybrid classes to depth 3, references to hybrid classes, renamed fields)"
        rep.bounds["values"] = "value families of C01 plus: equal to the declared defaults (all / nested classes only / equal only under broadcasting), zeros and empty texts (enumerated)"
        rep.bounds["outside_claim"] += ["default factories", "json.dumps-serialisability of the forms", "the C pickle serialiser and NumPy array pickling (concrete validation pass and replays only)"]
    if tr == "quick":
        rep.bounds["quick_tier"] = "scenarios with many allocations (reference-bearing types; copies; histories) assume a first free chunk of >= 16 KiB + 64 bytes ('roomy'); running out of space is explored by the growth placements (capacity 0; N=0 with a symbolic grow step for types without references)"
    if pjobs:
        rep.bounds["mode_P"] = "SOLVER: dynamic dimensions, index tuples, child sizes of struct fields, sizes of dynamic array items, string character/byte counts and capacities, stored reference words, slot/target offsets -- all values < 2^62; ENUMERATED: axis count <= 3, dynamic masks, axis orders, struct patterns <= 4 (quick) / 5 (thorough) fields, shapes of arrays of abstract dynamic items (<= 2x3x2)"
    rep.assumptions = [
        "mode P stubs: S3 (a text is a str with symbolic character count C and UTF-8 length L, C <= L <= 4C; bytes()/len() inside xobjects.string and xobjects.array accept it), S4 (np.prod/np.array/np.empty inside xobjects.array on lists holding proxies), abstract children report a symbolic size (static >= 1, dynamic >= 8) and record where they are written",
        "S1: Int64 codec stores/loads symbolic words atomically on symbolic buffers; S2: is_integer accepts proxies",
        "S9: storage primitives of the symbolic buffer are the write-log model; validated each run against the real BufferNumpy/BufferByteArray by running the same scenarios concretely (concrete_validation_runs)",
        "A1: capacities < 2^62; A2: type names unique inside a catalogue entry",
        "allocator representation invariant for the arbitrary pre-state (sorted, disjoint, non-touching, non-empty chunks inside capacity) -- the invariant C04 proves inductive",
        "explicit offset: caller guarantees the region is inside the buffer and not free",
    ]
    if not rep.stubs:
        rep.stubs = ["S1", "S2", "S9"] + (["S13", "S14"] if pid in ("C18", "C19", "C20") else [])
    if pid in ("C18", "C19", "C20"):
        rep.assumptions += [
            "S13: pickle's object protocol (reduce_ex(4), __getstate__/__setstate__ or instance __dict__, one memo, classes by reference) is run by copy.deepcopy over the real classes with by-value leaves (solver terms; the write-log as the buffer's bytes); the real pickle runs in the concrete validation pass and in replays",
            "S14: typed NumPy views of a symbolic buffer are write-back arrays (an element assignment through the view or a view of it is stored to the write-log)",
            "the default context of to_dict(copy_to_cpu=True) is a symbolic context during the symbolic run",
        ]
    if pid == "C17":
        rep.assumptions += ["S15: ffi.from_buffer(x) = address of the first byte of x; ffi.cast(ctype, address) = typed pointer; numpy.frombuffer(storage).ctypes.data = address of the storage; storage[start:] = view record; the compiled function is a recorder performing cffi's pointer type check against the declared signature; validated by the concrete pass with real compiled probe kernels"]
    return rep.finish()
