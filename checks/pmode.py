"""Mode P: the real planners, writers and readers on SYMBOLIC dimensions, sizes and indices.

Where the write-side scenarios (checks/wmode.py) enumerate shapes, these harnesses make
the dimensions d_k, the index tuple, the child sizes of a struct and the byte length of
a string solver variables, and run the REAL code:

  P1 arrays of static items   Array._inspect_args(d0,..), Array.__init__/_to_buffer (header),
                              Array._from_buffer (view), _get_offset / __getitem__ / __setitem__ /
                              bound_check on handle and view                    -> C03 C05 C06 C10 C11
  P2 structs                  MetaStruct.__new__, _inspect_args, _to_buffer/_set_offsets, _from_buffer,
                              Field.get_offset with ABSTRACT children of symbolic size -> C03 C05 C06
  P3 strings                  String._inspect_args/_to_buffer with a text of symbolic byte length,
                              array.rewrite_item against a symbolic capacity          -> C03 C05 C11

The oracle is the documented layout (DESIGN appendix A), written here directly as
z3 terms.  Non-linear obligations (strides are products of dimensions) go to z3's NIA.
"""
import contextlib
import itertools
import types

import numpy as np
import z3

from vx import symx
from vx.symx import Engine, SymInt, T, mk, mkb
from vx.typegen import ISZ

import xobjects as xo
import xobjects.array as xarray
import xobjects.scalar as xscalar
import xobjects.string as xstring
import xobjects.struct as xstruct
import xobjects.typeutils as xtypeutils
from xobjects.typeutils import Info

BIG = 2**62
LD = z3.Function("ldP", z3.IntSort(), z3.IntSort())


def slot(x):
    return (x + 7) / 8 * 8


# a refusal is ANY exception class the library chooses (the properties ask for "an error"); an exception caused by a
# stub that does not model what the code uses is a gap of the harness, not a refusal
REFUSAL = Exception
from vx.symx import is_stub_gap  # noqa: E402


# --------------------------------------------------------------------------
class PBuf:
    """word-addressed recording buffer: stores of symbolic words and of opaque payloads"""

    _is_pbuf = True

    def __init__(self):
        self.words = []  # (addr term, value term)
        self.payloads = []  # (kind, addr term, length term)
        self.context = types.SimpleNamespace(nplike_array_type=np.ndarray, nparray_to_context_array=lambda a: a)
        self.unresolved = 0

    def store_word(self, addr, value):
        self.words.append((T(addr), T(value)))

    def load_word(self, addr):
        a = T(addr)
        for so, v in reversed(self.words):
            d = z3.simplify(a - so)
            if z3.is_int_value(d):
                if d.as_long() == 0:
                    return mk(v)
                continue
            e = symx.engine()
            r1 = e.ask(a == so)
            if r1 == "unknown":
                raise symx.Inconclusive()  # an undecided aliasing question is not "different address"
            if r1 == "sat":
                r2 = e.ask(a != so)
                if r2 == "unknown":
                    raise symx.Inconclusive()
                if r2 == "sat":
                    if e.decide(a == so):
                        return mk(v)
                else:
                    return mk(v)
        self.unresolved += 1
        return mk(LD(a))

    def update_from_buffer(self, offset, source):
        n = source.L if isinstance(source, SymBytes) else len(source)
        self.payloads.append(("bytes", T(offset), T(n), source))


class SymVec(list):
    """what np.array([...symbolic...], dtype='i8') stands for"""


class NpFacade:
    def __getattr__(self, n):
        return getattr(np, n)

    @staticmethod
    def _has_sym(x):
        return isinstance(x, SymInt) or (isinstance(x, (list, tuple)) and any(NpFacade._has_sym(y) for y in x))

    def prod(self, x, *a, **k):
        if self._has_sym(x):
            r = 1
            for y in x:
                r = r * y
            return r
        return np.prod(x, *a, **k)

    def array(self, x, dtype=None, **k):
        if self._has_sym(x):
            return SymVec(x)
        return np.array(x, dtype=dtype, **k)

    def empty(self, shape, dtype=None, **k):
        if getattr(self, "object_tables", False) and str(dtype) == "int64":
            return np.empty(shape, dtype=object)  # S4: the offset table holds symbolic offsets
        return np.empty(shape, dtype=dtype, **k)


@contextlib.contextmanager
def patched():
    NS = xscalar.NumpyScalar
    o_to, o_from, o_ato, o_afrom = NS._to_buffer, NS._from_buffer, NS._array_to_buffer, NS._array_from_buffer
    o_int = xtypeutils.is_integer
    o_np = xarray.np

    def _to_buffer(self, buffer, offset, value, info=None):
        if getattr(buffer, "_is_pbuf", False):
            if self._dtype == np.dtype("int64"):
                buffer.store_word(offset, value)
            else:
                buffer.payloads.append(("scalar", T(offset), z3.IntVal(self._size), value))
            return
        return o_to(self, buffer, offset, value, info)

    def _from_buffer(self, buffer, offset=0):
        if getattr(buffer, "_is_pbuf", False):
            if self._dtype == np.dtype("int64"):
                return buffer.load_word(offset)
            return ("leaf", self.__name__, offset)
        return o_from(self, buffer, offset)

    def _array_to_buffer(self, buffer, offset, value):
        if getattr(buffer, "_is_pbuf", False):
            flat = list(value.flatten()) if isinstance(value, np.ndarray) else list(value)  # C order, as tobytes()
            for k, v in enumerate(flat):
                buffer.store_word(offset + 8 * k, v)
            return
        return o_ato(self, buffer, offset, value)

    def is_integer(i):
        return isinstance(i, SymInt) or o_int(i)

    def _array_from_buffer(self, buffer, offset, count):
        if getattr(buffer, "_is_pbuf", False):
            out = np.empty(int(count), dtype=object)
            for k in range(int(count)):
                out[k] = buffer.load_word(offset + 8 * k)
            return out
        return o_afrom(self, buffer, offset, count)

    NS._to_buffer, NS._from_buffer, NS._array_to_buffer = _to_buffer, _from_buffer, _array_to_buffer
    NS._array_from_buffer = _array_from_buffer
    saved = [(m, m.is_integer) for m in (xarray, xtypeutils, xstring) if hasattr(m, "is_integer")]
    for m, _ in saved:
        m.is_integer = is_integer
    xarray.np = NpFacade()
    try:
        yield
    finally:
        NS._to_buffer, NS._from_buffer, NS._array_to_buffer = o_to, o_from, o_ato
        NS._array_from_buffer = o_afrom
        for m, f in saved:
            m.is_integer = f
        xarray.np = o_np


# --------------------------------------------------------------------------
# P1: arrays of static items, all dimensions and indices
def spec_array(shape_terms, dyn, order, w):
    """documented layout of an array of static items of size w (appendix A)"""
    nd = len(shape_terms)
    has_size = bool(dyn)
    has_strides = bool(dyn) and nd > 1
    data_offset = 8 * (int(has_size) + len(dyn) + (nd if has_strides else 0))
    strides = [None] * nd
    acc = z3.IntVal(w)
    for ax in reversed(order):
        strides[ax] = acc
        acc = acc * shape_terms[ax]
    nitems = z3.IntVal(1)
    for d in shape_terms:
        nitems = nitems * d
    size = slot(data_offset + w * nitems)
    header = []
    if has_size:
        header.append(size)
    header += [shape_terms[k] for k in dyn]
    if has_strides:
        header += strides
    return dict(data_offset=data_offset, strides=strides, nitems=nitems, size=size, header=header)


def item_type(kind):
    if kind == "struct16":
        key = "P_static16"
        if key not in _types:
            _types[key] = type("PItem16", (xo.Struct,), {"x": xo.Int32, "y": xo.Float64})
        return _types[key], 16
    return getattr(xo, kind), ISZ[kind]


_types = {}


def h_array(cfg):
    pid, item, shape, order = cfg
    name = f"P1 array[{item};{','.join(':' if d is None else str(d) for d in shape)};order={''.join(map(str, order))}]"
    e = Engine(name, timeout_ms=30000, max_decisions=3000)
    it, w = item_type(item)
    idx_spec = tuple(slice(d, o) for d, o in zip(shape, order))
    cls = it[idx_spec if len(idx_spec) > 1 else idx_spec[0]]
    nd = len(shape)
    dyn = [k for k, d in enumerate(shape) if d is None]

    def body(e):
        dims = {k: e.sym(f"d{k}", 0) for k in dyn}
        base = e.sym("base", 0, BIG)
        sh = [dims[k].e if k in dims else z3.IntVal(shape[k]) for k in range(nd)]
        # A1 for shapes: the byte count stays < 2^62 even when zero dimensions are counted as 1
        nz = z3.IntVal(w)
        for d in sh:
            nz = nz * z3.If(d == 0, 1, d)
        e.assume(nz < BIG)
        sp = spec_array(sh, dyn, list(order), w)
        b = PBuf()
        det = lambda m: {"dims": {k: m.eval(v.e, model_completion=True).as_long() for k, v in dims.items()}, "idx": [m.eval(z3.Int(f"i{k}"), model_completion=True).as_long() for k in range(nd)]}
        try:
            h = cls(*[dims[k] for k in dyn], _buffer=b, _offset=base)
        except Exception as ex:  # noqa
            if is_stub_gap(ex):
                raise symx.Inconclusive()
            e.fail(f"constructing from dimensions raised {type(ex).__name__}: {str(ex)[:60]}", det)
            e.reach()
            return
        size = T(h._size) if cls._size is None else z3.IntVal(cls._size)
        if pid in ("C05", "C03"):
            e.prove(size == sp["size"], "C05 array size = slot(data_offset + itemsize * number of items)", det)
            words = {z3.simplify(a - base.e).as_long() if z3.is_int_value(z3.simplify(a - base.e)) else None: v for a, v in b.words}
            e.prove(z3.BoolVal(sorted(k for k in words if k is not None) == [8 * k for k in range(len(sp["header"]))] and None not in words), "C05 exactly the header words are written (size, dynamic dimensions, strides)", det)
            for k, hv in enumerate(sp["header"]):
                if 8 * k in words:
                    e.prove(words[8 * k] == hv, f"C05 header word {k} holds the documented value", det)
            e.prove(z3.BoolVal(cls._data_offset == sp["data_offset"]), "C05 data begin right after the header", det)
            # (whether the data area is left as it was or filled -- e.g. zeroed -- is the library's choice; what it writes
            # besides the header must stay inside the array's own data area)
            for pl in b.payloads:
                e.prove(z3.And(pl[1] >= base.e + sp["data_offset"], pl[1] + pl[2] <= base.e + size), "C03 creating an array of scalars from dimensions writes, besides its header, only inside its own data area", det)
        # a view rebuilt from the bytes
        try:
            v = cls._from_buffer(b, base)
        except Exception as ex:  # noqa
            if is_stub_gap(ex):
                raise symx.Inconclusive()
            e.fail(f"rebuilding a view raised {type(ex).__name__}", det)
            e.reach()
            return
        if pid == "C06":
            if cls._size is None:
                e.prove(T(v._size) == size, "C06 view and handle report the same size", det)
            for k in range(nd):
                e.prove(T(v._shape[k]) == T(h._shape[k]), f"C06 view and handle agree on dimension {k}", det)
                e.prove(T(v._strides[k]) == T(h._strides[k]), f"C06 view and handle agree on stride {k}", det)
                e.prove(T(h._strides[k]) == sp["strides"][k], f"C06 stride {k} is the documented one", det)
        # symbolic index
        ii = [e.sym(f"i{k}") for k in range(nd)]
        inrange = z3.And([z3.And(i.e >= 0, i.e < d) for i, d in zip(ii, sh)])
        # an index in -d..-1 may be refused (the pinned library does) or count from the end like Python sequences;
        # anything else accepted would address memory that is not the element
        wrap_ok = z3.And([z3.And(i.e >= -d, i.e < d) for i, d in zip(ii, sh)])
        want = base.e + sp["data_offset"] + sum(z3.If(i.e < 0, i.e + d, i.e) * s for i, d, s in zip(ii, sh, sp["strides"]))
        key = tuple(ii)
        for who, obj in (("handle", h), ("view", v)):
            nstore = len(b.payloads)
            try:
                off = obj._get_offset(tuple(ii))
            except REFUSAL as ex:
                if is_stub_gap(ex):
                    raise symx.Inconclusive()
                if pid == "C11":
                    e.prove(z3.Not(inrange), f"C11 {who}: IndexError is raised only for an index outside the shape", det)
                    e.prove(z3.BoolVal(len(b.payloads) == nstore), f"C11 {who}: nothing is written when the index is refused", det)
                elif pid in ("C06", "C03", "C10"):
                    e.prove(z3.Not(inrange), f"{pid} {who}: an in-range index is accepted", det)
                continue
            off = T(off)
            if pid == "C11":
                e.prove(wrap_ok, f"C11 {who}: an index outside the shape is refused (IndexError)", det)
                # item assignment and reading take the same decision
                for op in ("get", "set"):
                    n0 = len(b.payloads)
                    try:
                        if op == "get":
                            obj[key]
                        else:
                            obj[key] = 1
                        e.prove(wrap_ok, f"C11 {who}: item {op} with an index outside the shape is refused", det)
                    except REFUSAL as ex:
                        if is_stub_gap(ex):
                            raise symx.Inconclusive()
                        e.prove(z3.Not(inrange), f"C11 {who}: item {op} refuses only out-of-shape indices", det)
                        e.prove(z3.BoolVal(len(b.payloads) == n0), f"C11 {who}: a refused item {op} writes nothing", det)
                continue
            if pid == "C06":
                e.prove(off == want, f"C06 {who}: item address = base + data_offset + sum(i_k * stride_k) for all indices", det)
            if pid == "C03":
                rel = off - base.e
                e.prove(z3.Implies(inrange, z3.And(rel >= sp["data_offset"], rel + w <= size)), f"C03 {who}: every element lies inside the array, after its header", det)
                jj = [e.sym(f"j{k}") for k in range(nd)]
                inr2 = z3.And([z3.And(j.e >= 0, j.e < d) for j, d in zip(jj, sh)])
                try:
                    off2 = T(obj._get_offset(tuple(jj)))
                    differ = z3.Or([i.e != j.e for i, j in zip(ii, jj)])
                    e.prove(z3.Implies(z3.And(inrange, inr2, differ), z3.Or(off + w <= off2, off2 + w <= off)), f"C03 {who}: distinct index tuples address disjoint elements", det)
                except REFUSAL as ex:
                    if is_stub_gap(ex):
                        raise symx.Inconclusive()
            if pid == "C10" and item != "struct16":
                n0, w0 = len(b.payloads), len(b.words)
                try:
                    obj[key] = 5
                    new = b.payloads[n0:]
                    e.prove(z3.BoolVal(len(new) == 1 and len(b.words) == w0), f"C10 {who}: an item assignment performs exactly one store and touches no header word", det)
                    if len(new) == 1:
                        e.prove(z3.And(new[0][1] == want, new[0][2] == w), f"C10 {who}: the store covers exactly the addressed element", det)
                except REFUSAL as ex:
                    if is_stub_gap(ex):
                        raise symx.Inconclusive()
                    e.prove(z3.Not(inrange), f"C10 {who}: an in-range item assignment is accepted", det)
        e.reach()

    with patched():
        e.explore(body)
    r = e.result()
    r["cfg"] = list(cfg)
    return r


# --------------------------------------------------------------------------
# P2: structs with abstract children
class FakeStatic:
    def __init__(self, name, size):
        self.__name__ = name
        self._size = size

    def _inspect_args(self, *a, **k):
        return Info(size=self._size)

    def _to_buffer(self, buffer, offset, value, info=None):
        buffer.payloads.append(("child", T(offset), T(self._size), self.__name__))

    def _from_buffer(self, buffer, offset=0):
        return ("child", self.__name__, offset)

    def __call__(self, *a):
        return 0


class FakeDyn:
    _size = None

    def __init__(self, name, size):
        self.__name__ = name
        self.size = size

    def _inspect_args(self, *a, **k):
        return Info(size=self.size)

    def _to_buffer(self, buffer, offset, value, info=None):
        buffer.payloads.append(("child", T(offset), T(info.size if info is not None else self.size), self.__name__))

    def _from_buffer(self, buffer, offset=0):
        return ("child", self.__name__, offset)

    def __call__(self, *a):
        return 0


def h_struct(cfg):
    pid, pat = cfg
    name = f"P2 struct[{''.join(pat)}]"
    e = Engine(name, timeout_ms=30000)

    def body(e):
        sizes = []
        fields = {}
        for k, p in enumerate(pat):
            # a dynamic child begins with its size word (>= 8 bytes); its reported size need NOT be a slot
            # multiple (a string created from a capacity reports capacity + 8): the struct rounds
            z = e.sym(f"z{k}", 1 if p == "S" else 8, BIG // 16)
            sizes.append(z)
            fields[f"f{k}"] = FakeStatic(f"f{k}", z) if p == "S" else FakeDyn(f"f{k}", z)
        det = lambda m: {"pattern": "".join(pat), "sizes": [m.eval(z.e, model_completion=True).as_long() for z in sizes]}
        S = type("PS_" + "".join(pat), (xo.Struct,), dict(fields))
        base = e.sym("base", 0, BIG)
        b = PBuf()
        info = S._inspect_args({f"f{k}": 0 for k in range(len(pat))})
        S._to_buffer(b, base, info.value, info)
        dyn = [k for k, p in enumerate(pat) if p == "D"]
        # the documented plan (appendix A)
        off = z3.IntVal(8 if dyn else 0)
        want = {}
        for k, p in enumerate(pat):
            if p == "S":
                want[k] = off
                off = off + slot(sizes[k].e)
        word_at = {}
        for k in dyn[1:]:
            word_at[k] = off
            off = off + 8
        for k in dyn:
            want[k] = off
            off = off + slot(sizes[k].e)
        total = off
        size = T(info.size)
        e.prove(size == total, "C05 struct size = header + slot-rounded static fields + offset words + slot-rounded dynamic parts", det)
        e.prove(size % 8 == 0, "C05 struct size is a multiple of 8", det)
        kids = {p[3]: (p[1] - base.e, p[2]) for p in b.payloads if p[0] == "child"}
        e.prove(z3.BoolVal(sorted(kids) == sorted(fields)), "C03 every field is written exactly once", det)
        for k in range(len(pat)):
            nm = f"f{k}"
            if nm not in kids:
                continue
            o, ln = kids[nm]
            e.prove(o == want[k], f"C05 field {k} ({pat[k]}) starts at the documented offset (static fields in order, then offset words, then dynamic data)", det)
            e.prove(o % 8 == 0, f"C05 field {k} starts on a slot boundary", det)
            e.prove(z3.And(o >= (8 if dyn else 0), o + ln <= size), f"C03 field {k} lies inside the struct, after the size word", det)
        for (n1, (o1, l1)), (n2, (o2, l2)) in itertools.combinations(sorted(kids.items()), 2):
            e.prove(z3.Or(o1 + l1 <= o2, o2 + l2 <= o1), f"C03 fields {n1} and {n2} do not overlap", det)
        # header words: size word and the offset words of the 2nd.. dynamic fields
        words = {}
        for a, v in b.words:
            d = z3.simplify(a - base.e)
            words.setdefault(d.as_long() if z3.is_int_value(d) else str(d), []).append(v)
        if dyn:
            e.prove(z3.BoolVal(0 in words) and (words[0][-1] == size if 0 in words else z3.BoolVal(False)), "C05 a dynamic struct begins with its total size", det)
        for k in dyn[1:]:
            e.prove(
                z3.Or([z3.And(a - base.e == word_at[k], v == want[k]) for a, v in b.words]) if b.words else z3.BoolVal(False),
                f"C05 the offset word of dynamic field {k} sits after the static fields and holds that field's offset",
                det,
            )
        # words written lie inside the struct and not inside a static child
        for a, v in b.words:
            o = a - base.e
            e.prove(z3.And(o >= 0, o + 8 <= size), "C03 header words lie inside the struct", det)
        if pid == "C06":
            # handle offsets (Info) vs view offsets (re-read)
            v = S._from_buffer(b, base)
            hnd = types.SimpleNamespace(_offset=base, _offsets=getattr(info, "_offsets", {}), _buffer=b)
            for f in S._fields:
                _, oh = f.get_offset(hnd)
                _, ov = f.get_offset(v)
                e.prove(T(oh) == T(ov), f"C06 field {f.name}: same address through the constructor's cached offsets and through a rebuilt view", det)
                e.prove(T(ov) - base.e == want[f.index], f"C06 field {f.name}: the view finds it at the documented offset", det)
            e.prove(T(v._size) == size, "C06 view re-reads the size the constructor computed", det)
        e.reach()

    with patched():
        e.explore(body)
    r = e.result()
    r["cfg"] = [pid, "".join(pat)]
    return r


# --------------------------------------------------------------------------
# P3: strings of symbolic byte length
class SymBytes:
    """UTF-8 bytes of a text: symbolic length L, NUL-free content (opaque)"""

    def __init__(self, L, parts=None):
        self.L = L
        self.parts = parts or [("data", L)]

    def __add__(self, o):
        return SymBytes(self.L + o.L, self.parts + o.parts)

    def __iadd__(self, o):
        return self.__add__(o)


class SymStr(str):
    """a Python str with a symbolic number of characters C whose UTF-8 encoding has symbolic
    length L (C <= L <= 4C): len() gives C, bytes(.., 'utf8') has length L"""

    def __new__(cls, L, C=None):
        s = str.__new__(cls, "<symbolic text>")
        s.L = L
        s.C = C if C is not None else L
        return s


def _sbytes(x, enc=None):
    if isinstance(x, SymStr):
        return SymBytes(x.L)
    return bytes(x, enc) if enc else bytes(x)


def _slen(x):
    if isinstance(x, SymBytes):
        return x.L
    if isinstance(x, SymStr):
        return x.C
    return len(x)


@contextlib.contextmanager
def patched_strings():
    xstring.bytes = _sbytes
    xstring.len = _slen
    xarray.len = _slen
    hook = symx.engine().sequence_repeat_hook if symx._ENG else None

    def rep(seq, n):
        if isinstance(seq, bytes) and seq == b"\x00":
            return SymBytes(n if isinstance(n, SymInt) else n, [("zeros", n)])
        return seq * symx.engine().concretize(n, why="sequence repeat")

    try:
        yield rep
    finally:
        del xstring.bytes
        del xstring.len
        del xarray.len


def h_string(cfg):
    pid, mode = cfg
    name = f"P3 string[{mode}]"
    e = Engine(name, timeout_ms=30000)

    def body(e):
        L = e.sym("L", 0, BIG // 4)
        C = e.sym("C", 0, BIG // 4)
        e.assume(z3.And(C.e <= L.e, L.e <= 4 * C.e))  # UTF-8: 1..4 bytes per character
        base = e.sym("base", 0, BIG)
        b = PBuf()
        det = lambda m: {"L": m.eval(L.e, model_completion=True).as_long(), "C": m.eval(C.e, model_completion=True).as_long(), "S": m.eval(z3.Int("S"), model_completion=True).as_long() if mode != "create" else None}
        if mode == "create":
            s = xo.String(SymStr(L, C), _buffer=b, _offset=base)
            size = T(s._size)
            e.prove(size == slot(L.e + 1 + 8), "C05 a string of L bytes takes slot(L + terminator + size word) bytes", det)
            w = [v for a, v in b.words if z3.is_int_value(z3.simplify(a - base.e)) and z3.simplify(a - base.e).as_long() == 0]
            e.prove(z3.BoolVal(len(w) >= 1) if not w else w[-1] == size, "C05 the string begins with its total size", det)
            pl = [p for p in b.payloads if p[0] == "bytes"]
            e.prove(z3.BoolVal(len(pl) == 1), "C03 the text is written by one store", det)
            if len(pl) == 1:
                _, a, n, src = pl[0]
                e.prove(z3.And(a == base.e + 8, n == size - 8), "C03/C05 data and NUL padding fill exactly the bytes after the size word up to the reported size", det)
                zeros = sum((T(p[1]) for p in src.parts if p[0] == "zeros"), z3.IntVal(0)) if isinstance(src, SymBytes) else z3.IntVal(0)
                e.prove(zeros >= 1, "C05 at least one NUL terminates the text", det)
        else:
            # in-place rewrite of an existing string whose size word is S
            S = e.sym("S", 9, BIG // 4)
            b.store_word(base, S)
            nst = len(b.payloads)
            nw = len(b.words)
            fits = L.e + 1 + 8 <= S.e
            # through the public assignment path of a struct field (Field.__set__ on a string-typed field)
            fld = xstruct.Field(xo.String)
            fld.index, fld.name, fld.offset, fld.is_reference, fld.is_union = 0, "s", 0, False, False
            inst = types.SimpleNamespace(_buffer=b, _offset=base, _offsets={})
            try:
                fld.__set__(inst, SymStr(L, C))
            except ValueError:
                e.prove(z3.Not(fits), "C11 a text is refused only if it does not fit the space fixed at creation (L + 1 + 8 > size word)", det)
                e.prove(z3.BoolVal(len(b.payloads) == nst and len(b.words) == nw), "C11 a refused text writes nothing", det)
                e.reach()
                return
            e.prove(fits, "C11 a text that does not fit (L + 1 + 8 > size word) is refused", det)
            for a, v in b.words[nw:]:
                e.prove(z3.Implies(a == base.e, v == S.e), "C10 a fitting assignment keeps the recorded size", det)
                e.prove(a == base.e, "C10 a fitting assignment writes no other header word", det)
            pl = b.payloads[nst:]
            e.prove(z3.BoolVal(len(pl) == 1), "C10 the new text is written by one store", det)
            if len(pl) == 1:
                _, a, n, src = pl[0]
                e.prove(z3.And(a == base.e + 8, a + n <= base.e + S.e), "C03 the new text stays inside the string's own extent", det)
                # an earlier fitting text occupies at most the bytes [8, S-1) (its terminator is inside the space);
                # every one of them must be overwritten, otherwise its tail shows after the new text
                e.prove(n >= S.e - 9, "C10 every byte an earlier value may occupy is rewritten: no tail of the previous value survives", det)
                zeros = sum((T(p[1]) for p in src.parts if p[0] == "zeros"), z3.IntVal(0)) if isinstance(src, SymBytes) else z3.IntVal(0)
                e.prove(zeros >= 1, "C05 at least one NUL terminates the new text", det)
        e.reach()

    with patched():
        with patched_strings() as rep:
            e.sequence_repeat_hook = rep
            e.explore(body)
    r = e.result()
    r["cfg"] = list(cfg)
    return r


# --------------------------------------------------------------------------
# P5: arrays of dynamically sized items with ABSTRACT items of symbolic size (shape enumerated)
class FakeItem:
    """abstract dynamically sized item type: item k has symbolic size z_k"""

    _size = None
    _has_refs = False

    def __init__(self, sizes):
        self.__name__ = "PItem"
        self.sizes = sizes

    def _inspect_args(self, k):
        return Info(size=self.sizes[k])

    def _to_buffer(self, buffer, offset, value, info=None):
        buffer.payloads.append(("child", T(offset), T(info.size if info is not None else self.sizes[value]), value))

    def _from_buffer(self, buffer, offset=0):
        return ("child", offset)


def h_dynarr(cfg):
    pid, shape, order, dynmask = cfg
    name = f"P5 array of dynamic items[{shape};order={''.join(map(str, order))};dyn={dynmask}]"
    e = Engine(name, timeout_ms=30000, max_decisions=4000)
    nd = len(shape)
    n = int(np.prod(shape))

    def body(e):
        sizes = [e.sym(f"z{k}", 8, BIG // 64) for k in range(n)]
        base = e.sym("base", 0, BIG)
        it = FakeItem(sizes)
        decl = tuple(slice(None if dynmask[k] else shape[k], order[k]) for k in range(nd))
        cls = xarray.Array.mk_arrayclass(it, decl if nd > 1 else decl[0])
        # value: nested lists whose leaves are the item numbers (index order)
        idxs = list(itertools.product(*[range(d) for d in shape]))
        num = {idx: k for k, idx in enumerate(idxs)}

        def nest(prefix, lvl):
            if lvl == nd:
                return num[tuple(prefix)]
            return [nest(prefix + [i], lvl + 1) for i in range(shape[lvl])]

        value = nest([], 0)
        b = PBuf()
        det = lambda m: {"shape": list(shape), "order": list(order), "sizes": [m.eval(z.e, model_completion=True).as_long() for z in sizes]}
        facade = xarray.np
        facade.object_tables = True
        try:
            h = cls(value, _buffer=b, _offset=base)
        except Exception as ex:  # noqa
            if is_stub_gap(ex):
                raise symx.Inconclusive()
            e.fail(f"constructing an array of dynamic items raised {type(ex).__name__}: {str(ex)[:60]}", det)
            e.reach()
            return
        finally:
            facade.object_tables = False
        ndyn = sum(1 for k in range(nd) if dynmask[k])
        data_offset = 8 * (1 + ndyn + (nd if ndyn and nd > 1 else 0))
        # documented layout: table of n words in MEMORY order, then the items in memory order, each on a slot
        strides = [None] * nd
        acc = 8
        for ax in reversed(order):
            strides[ax] = acc
            acc *= shape[ax]
        mem_sorted = sorted(idxs, key=lambda idx: sum(i * s for i, s in zip(idx, strides)))
        want_off = {}
        off = z3.IntVal(data_offset + 8 * n)
        for idx in mem_sorted:
            want_off[idx] = off
            off = off + slot(sizes[num[idx]].e)
        total = off
        size = T(h._size)
        e.prove(size == total, "C05 size of an array of dynamic items = header + table + slot-rounded items", det)
        words = {}
        for a, v in b.words:
            d = z3.simplify(a - base.e)
            if z3.is_int_value(d):
                words[d.as_long()] = v
        kids = {p[3]: (p[1] - base.e, p[2]) for p in b.payloads if p[0] == "child"}
        e.prove(z3.BoolVal(sorted(kids) == list(range(n))), "C03 every item is written exactly once", det)
        for idx in idxs:
            pos = data_offset + sum(i * s for i, s in zip(idx, strides))
            ok = pos in words
            e.prove(z3.BoolVal(ok), f"C05 the table word of item {idx} sits at data_offset + sum(i_k * stride_k) (memory order)", det)
            if ok:
                e.prove(words[pos] == want_off[idx], f"C05 the table word of item {idx} holds that item's offset; items follow the table in memory order, slot-rounded", det)
            if num[idx] in kids:
                o, ln = kids[num[idx]]
                e.prove(o == want_off[idx], f"C05 item {idx} is written where its table word points", det)
                e.prove(o % 8 == 0, f"C05 item {idx} starts on a slot boundary", det)
                e.prove(z3.And(o >= data_offset + 8 * n, o + ln <= size), f"C03 item {idx} lies inside the array, after the table", det)
        for (k1, (o1, l1)), (k2, (o2, l2)) in itertools.combinations(sorted(kids.items()), 2):
            e.prove(z3.Or(o1 + l1 <= o2, o2 + l2 <= o1), f"C03 items {k1} and {k2} do not overlap", det)
        if pid == "C06":
            try:
                v = cls._from_buffer(b, base)
                for idx in idxs:
                    oh, ov = h._get_offset(idx), v._get_offset(idx)
                    e.prove(T(oh) == T(ov), f"C06 item {idx}: same address through the constructor handle and a rebuilt view", det)
                    e.prove(T(ov) - base.e == want_off[idx], f"C06 item {idx}: the view finds it at the documented offset", det)
            except Exception as ex:  # noqa
                if is_stub_gap(ex):
                    raise symx.Inconclusive()
                e.fail(f"C06 indexing an array of dynamic items through a rebuilt view raised {type(ex).__name__}: {str(ex)[:60]}", det)
        e.reach()

    with patched():
        e.explore(body)
    r = e.result()
    r["cfg"] = [pid, list(shape), list(order), list(dynmask)]
    return r


# --------------------------------------------------------------------------
# P4: reference codecs for all slot / target offsets and all stored words
NULL = -(2**63)


class _Target:
    """abstract reference target type: a view is (name, offset)"""

    def __init__(self, name):
        self.__name__ = name
        self._size = 16

    def _from_buffer(self, buffer, offset=0):
        return _TargetView(self, buffer, offset)

    def __call__(self, *a, **k):
        raise symx.Abort()


class _TargetView:
    def __init__(self, cls, buffer, offset):
        self._cls, self._buffer, self._offset = cls, buffer, offset
        self.__class__ = type(cls.__name__, (_TargetView,), {})


def h_ref(cfg):
    pid, kind, mode = cfg
    name = f"P4 {kind}[{mode}]"
    e = Engine(name, timeout_ms=30000)
    import xobjects.ref as xref

    def body(e):
        slot = e.sym("slot", 0, BIG)
        b = PBuf()
        A0, A1 = _Target("TA"), _Target("TB")
        det = lambda m: {"slot": m.eval(slot.e, model_completion=True).as_long(), "w": m.eval(z3.Int("w"), model_completion=True).as_long() if mode == "decode" else None, "target": m.eval(z3.Int("target"), model_completion=True).as_long() if mode != "decode" else None, "kind": kind}
        if kind == "ref":
            r = xo.Ref(A0)
            reader = lambda: r._from_buffer(b, slot)
        else:
            U = type("PU", (xo.UnionRef,), {"_reftypes": [A0, A1]})
            reader = lambda: U._from_buffer(b, slot)
        if mode == "decode":
            w = e.sym("w", NULL, 2**63 - 1)
            b.store_word(slot, w)
            tid = None
            if kind == "uref":
                tid = e.sym("tid", -1, 1)
                b.store_word(slot + 8, tid)
                e.assume(z3.Implies(w.e != NULL, tid.e >= 0))
            try:
                got = reader()
            except Exception as ex:  # noqa
                if is_stub_gap(ex):
                    raise symx.Inconclusive()
                e.fail(f"C08 decoding a stored reference raised {type(ex).__name__}", det)
                e.reach()
                return
            if got is None:
                e.prove(w.e == NULL, "C05 exactly one stored value (-2^63) means null: no other offset reads back as None", det)
            else:
                e.prove(w.e != NULL, "C05 the reserved value -2^63 reads back as None", det)
                e.prove(T(got._offset) == slot.e + w.e, "C05 a reference is an offset relative to its own slot", det)
                if kind == "uref":
                    e.prove(z3.BoolVal(got._cls is A0) == (tid.e == 0), "C08 the member index selects the member type", det)
        else:
            # write then read: bind to an object living in the same buffer at an arbitrary offset (also the slot's own)
            target = e.sym("target", 0, BIG)
            cls = A0 if mode == "bind0" else A1
            if kind == "ref" and mode == "bind1":
                e.reach()
                return
            obj = _TargetView(cls, b, target)
            try:
                if kind == "ref":
                    r._to_buffer(b, slot, obj)
                else:
                    U._to_buffer(b, slot, obj)
                got = reader()
            except Exception as ex:  # noqa
                if is_stub_gap(ex):
                    raise symx.Inconclusive()
                e.fail(f"C08 binding a reference to an object of the same buffer raised {type(ex).__name__}: {str(ex)[:60]}", det)
                e.reach()
                return
            e.prove(z3.BoolVal(got is not None), "C08 a reference bound to a live object of its buffer reads back non-null, wherever the object lies relative to the slot", det)
            if got is not None:
                e.prove(T(got._offset) == target.e, "C08 a reference bound to an object of the same buffer denotes that very object", det)
                e.prove(z3.BoolVal(got._cls is cls), "C08 it resolves to an object of the recorded member type", det)
            e.prove(z3.BoolVal(len(b.payloads) == 0), "C08 binding to an existing object creates nothing", det)
        e.reach()

    with patched():
        e.explore(body)
    r_ = e.result()
    r_["cfg"] = list(cfg)
    return r_


# --------------------------------------------------------------------------
def jobs(pid, tr):
    out = []
    if pid in ("C03", "C05", "C06", "C10", "C11"):
        # arrays of scalars only: creating an array of compound items from dimensions writes one default item
        # per element (a loop over the symbolic item count, which concretises)
        items = ["Float64", "Int8"] if tr == "quick" else ["Float64", "Int8", "Int32", "Int16"]
        shapes = [((None,), (0,))]
        for o in itertools.permutations(range(2)):
            shapes += [((None, None), o), ((3, None), o), ((None, 4), o)]
        for o in itertools.permutations(range(3)):
            shapes.append(((None, None, None), o))
            if tr == "thorough" or o in ((1, 2, 0), (2, 0, 1)):
                shapes += [((None, 3, None), o), ((2, None, 4), o), ((None, None, 5), o), ((2, 3, None), o)]
        for it in items:
            for sh, o in shapes:
                if pid == "C10" and it == "struct16":
                    continue
                out.append(("array", (pid, it, sh, o)))
    if pid in ("C03", "C05", "C06"):
        maxn = 4 if tr == "quick" else 5
        for n in range(1, maxn + 1):
            for pat in itertools.product("SD", repeat=n):
                out.append(("struct", (pid, pat)))
    if pid in ("C03", "C05"):
        out.append(("string", (pid, "create")))
    if pid in ("C10", "C11", "C03"):
        out.append(("string", (pid, "rewrite")))
    if pid in ("C03", "C05", "C06"):
        cfgs = [((3,), (0,), (True,)), ((2,), (0,), (False,))]
        for o in itertools.permutations(range(2)):
            cfgs += [((2, 3), o, (True, True)), ((2, 2), o, (False, True))]
        for o in itertools.permutations(range(3)):
            if tr == "thorough" or o in ((1, 2, 0), (2, 0, 1), (0, 1, 2)):
                cfgs.append(((2, 2, 2), o, (True, False, True)))
            if tr == "thorough":
                cfgs.append(((2, 3, 2), o, (True, True, True)))
        for sh, o, dm in cfgs:
            out.append(("dynarr", (pid, sh, o, dm)))
    if pid in ("C05", "C08"):
        for kind in ("ref", "uref"):
            for mode in ("decode", "bind0", "bind1"):
                out.append(("ref", (pid, kind, mode)))
    return out


HARNESS = {"array": h_array, "struct": h_struct, "string": h_string, "ref": h_ref, "dynarr": h_dynarr}


def dispatch(job):
    try:
        return HARNESS[job[0]](job[1])
    except Exception as ex:  # a refactored tree the harness cannot drive: inconclusive, never a crash
        import traceback

        st = symx.Stats().as_dict()
        st.update(name=f"P {job[0]} {job[1]}", cexs=[], samples=[], reach={"end": 1}, hashes=[], notes=["harness could not drive this tree: " + "".join(traceback.format_exception_only(type(ex), ex)).strip()[:200]])
        st["unknown"] = 1
        return st


REPLAY = '''#!/usr/bin/env python
"""replay of a mode-P counterexample with concrete dimensions / sizes on a real buffer (exit 1 = violated)"""
import os, sys
if not sys.executable.startswith("/verif/.venv"):
    os.execv("/verif/.venv/bin/python", ["/verif/.venv/bin/python"] + sys.argv)
sys.path.insert(0, "/verif")
from checks import pmode
sys.exit(pmode.replay({kind!r}, {cfg!r}, {detail!r}, {history}))
'''


def replay(kind, cfg, detail, history=()):
    """concrete re-check against the real library and the layout decoder"""
    if history:
        # the harnesses the finding worker had run before, repeated concretely first (outcome ignored)
        import contextlib, io

        for hk, hc in history:
            try:
                with contextlib.redirect_stdout(io.StringIO()):
                    replay(hk, tuple(hc) if isinstance(hc, list) else hc, None)
            except Exception:  # noqa
                pass
    from vx.layoutspec import Decoder
    from vx import typegen as tg, values as V

    bad = []
    if kind == "array":
        pid, item, shape, order = cfg
        dims = {int(k): int(v) for k, v in (detail or {}).get("dims", {}).items()}
        idx = [int(x) for x in (detail or {}).get("idx", [0] * len(shape))]
        if any(v > 200 for v in dims.values()):
            dims = {k: min(v, 7) for k, v in dims.items()}
        it, w = item_type(item)
        isp = tuple(slice(d, o) for d, o in zip(shape, order))
        cls = it[isp if len(isp) > 1 else isp[0]]
        ctx = xo.ContextCpu()
        buf = ctx.new_buffer(1 << 16)
        base = buf.allocate(8 + 3)
        base = 16
        dyn = [k for k, d in enumerate(shape) if d is None]
        h = cls(*[dims.get(k, 2) for k in dyn], _buffer=buf, _offset=base)
        v = cls._from_buffer(buf, base)
        sh = [dims.get(k, 2) if d is None else d for k, d in enumerate(shape)]
        # layout: strides
        strides = [None] * len(sh)
        acc = w
        for ax in reversed(order):
            strides[ax] = acc
            acc *= sh[ax]
        data_offset = cls._data_offset
        n = 1
        for d in sh:
            n *= d
        want_size = (8 * (int(bool(dyn)) + len(dyn) + (len(sh) if dyn and len(sh) > 1 else 0)) + w * n + 7) // 8 * 8
        size = h._size if cls._size is None else cls._size
        if size != want_size:
            bad.append(f"size {size} != layout {want_size}")
        if list(map(int, h._shape)) != list(map(int, v._shape)) or list(map(int, h._strides)) != list(map(int, v._strides)) or list(map(int, h._strides)) != strides:
            bad.append(f"shape/strides: handle {h._shape} {h._strides}, view {v._shape} {v._strides}, layout {strides}")
        inr = all(-d <= i < d for i, d in zip(idx, sh))  # -d..-1: refusal or the element counted from the end
        nidx = [i + d if i < 0 else i for i, d in zip(idx, sh)]
        for who, obj in (("handle", h), ("view", v)):
            for op in ("off", "get", "set"):
                before = bytes(buf.to_bytearray(0, 4096))
                try:
                    if op == "off":
                        o = obj._get_offset(tuple(idx))
                        if not inr:
                            bad.append(f"{who}: out-of-shape index {idx} accepted for shape {sh}")
                        elif o != base + want_size * 0 + (8 * (int(bool(dyn)) + len(dyn) + (len(sh) if dyn and len(sh) > 1 else 0))) + sum(i * s for i, s in zip(nidx, strides)):
                            bad.append(f"{who}: offset of {idx} is {o}")
                    elif op == "get":
                        obj[tuple(idx) if len(idx) > 1 else idx[0]]
                        if not inr:
                            bad.append(f"{who}: reading out-of-shape index {idx} accepted")
                    elif item != "struct16":
                        obj[tuple(idx) if len(idx) > 1 else idx[0]] = 5
                        if not inr:
                            bad.append(f"{who}: writing out-of-shape index {idx} accepted")
                except Exception:  # any refusal class
                    if inr and all(i >= 0 for i in idx):
                        bad.append(f"{who}: in-range index {idx} refused ({op})")
                    if bytes(buf.to_bytearray(0, 4096)) != before:
                        bad.append(f"{who}: refused {op} wrote to the buffer")
    elif kind == "string":
        pid, mode = cfg
        L = min(int((detail or {}).get("L", 3)), 4000)
        C = int((detail or {}).get("C", L))
        C = max(min(C, L), (L + 3) // 4)
        extra = L - C
        chars = []
        for _ in range(C):
            add = min(3, extra)
            chars.append(["a", "\u00e9", "\u65e5", "\U0001d11e"][add])
            extra -= add
        text = "".join(chars)
        assert len(text) == C and len(text.encode()) == L, (C, L)
        if mode == "create":
            ctx = xo.ContextCpu()
            buf = ctx.new_buffer(2 * L + 64)
            for k in range(buf.capacity):
                buf.buffer[k] = 0x55
            s = xo.String(text, _buffer=buf)
            nb = xo.Int64[:]([7, 8], _buffer=buf)
            if s._size != (L + 9 + 7) // 8 * 8:
                bad.append(f"String of {C} characters / {L} bytes has size {s._size}, layout says {(L + 9 + 7) // 8 * 8}")
            raw = bytes(buf.to_bytearray(s._offset + 8, s._size - 8))
            if b"\x00" not in raw:
                bad.append("no NUL inside the string's own extent")
            if s.to_str() != text or list(nb) != [7, 8]:
                bad.append(f"reads back {s.to_str()[:20]!r}, neighbour {list(nb)}")
        else:
            S = min(int((detail or {}).get("S") or 16), 4096)

            class H(xo.Struct):
                s = xo.String
                t = xo.Int64

            hh = H(s=max(S - 8, 1), t=77)
            soff = hh._get_offset("s")
            S0 = int(xo.Int64._from_buffer(hh._buffer, soff))
            fits = L + 9 <= S0
            nbr = xo.Int64[:]([5, 6], _buffer=hh._buffer)
            try:  # the string holds a full-length text before the assignment under test
                if S0 - 9 >= 1:
                    hh.s = "q" * (S0 - 9)
            except Exception:
                pass
            before = bytes(hh._buffer.to_bytearray(0, 512))
            try:
                hh.s = text
                if not fits:
                    bad.append(f"text of {C} characters / {L} bytes accepted into a string whose size word is {S0}")
                if hh.s != text or hh.t != 77 or list(nbr) != [5, 6]:
                    bad.append(f"after assigning {L} bytes: s={hh.s[:20]!r}.. t={hh.t} neighbour={list(nbr)}")
                if int(xo.Int64._from_buffer(hh._buffer, soff)) != S0:
                    bad.append("the recorded size of the string changed")
            except ValueError:
                if fits:
                    bad.append(f"text of {L} bytes refused although it fits size word {S0}")
                if bytes(hh._buffer.to_bytearray(0, 512)) != before:
                    bad.append("a refused assignment changed the buffer")
            except Exception as ex:
                bad.append(f"assignment raised {type(ex).__name__}: {str(ex)[:80]}")
    elif kind == "struct":
        pid, pat = cfg
        sizes = [int(x) for x in (detail or {}).get("sizes", [8] * len(pat))]
        fields, val, exp = {}, {}, {}
        for k, p in enumerate(pat):
            if p == "S":
                n = max(1, min(sizes[k], 64))
                fields[f"f{k}"] = xo.Int8[n]
                val[f"f{k}"] = [1] * n
                exp[f"f{k}"] = [1] * n
            else:
                # a dynamic child of exactly the reported size: a string created from a capacity (size = capacity + 8)
                z = max(9, min(sizes[k], 200))
                fields[f"f{k}"] = xo.String
                val[f"f{k}"] = z - 8
                exp[f"f{k}"] = ""
        S = type("RS", (xo.Struct,), fields)
        o = S(val)
        t = ("struct", "RS", tuple((f"f{k}", ("array", ("scalar", "Int8"), (len(val[f"f{k}"]),), None) if p == "S" else ("string",)) for k, p in enumerate(pat)))
        try:
            dec = Decoder(bytes(o._buffer.to_bytearray(0, o._buffer.capacity)))
            got = dec.decode(t, o._offset)
            if any((list(got[k]) if isinstance(got[k], list) else got[k]) != exp[k] for k in exp):
                bad.append(f"layout decoder reads {got}")
            for path, off, parent in dec.parts:
                if (off - parent) % 8:
                    bad.append(f"part {path} at offset {off - parent}: not on a slot boundary")
            if o._size % 8:
                bad.append(f"struct size {o._size} is not a multiple of 8")
            vw = S._from_buffer(o._buffer, o._offset)
            for k in range(len(pat)):
                if o._get_offset(f"f{k}") != vw._get_offset(f"f{k}"):
                    bad.append(f"field f{k}: constructor handle places it at {o._get_offset(f'f{k}')}, a rebuilt view at {vw._get_offset(f'f{k}')}")
            if int(vw._size) != int(o._size):
                bad.append(f"view size {vw._size} != handle size {o._size}")
        except Exception as ex:
            bad.append(f"layout decoder failed: {type(ex).__name__}: {ex}")
    elif kind == "dynarr":
        pid, shape, order, dynmask = cfg
        shape, order = list(shape), list(order)
        sizes = [max(9, min(int(x), 200)) for x in (detail or {}).get("sizes", [16] * int(np.prod(shape)))]
        t = ("array", ("string",), tuple(None if dynmask[k] else shape[k] for k in range(len(shape))), tuple(order))
        cls = tg.build(t)
        idxs = list(itertools.product(*[range(d) for d in shape]))

        def nest(prefix, lvl):
            if lvl == len(shape):
                return sizes[idxs.index(tuple(prefix))] - 8  # a string created from a capacity has size capacity + 8
            return [nest(prefix + [i], lvl + 1) for i in range(shape[lvl])]

        o = cls(nest([], 0))
        try:
            dec = Decoder(bytes(o._buffer.to_bytearray(0, o._buffer.capacity)))
            got = dec.decode(t, o._offset)
            flat = np.array(got, dtype=object).flatten().tolist()
            if any(x != "" for x in flat):
                bad.append(f"layout decoder reads {got}")
            for path, off, parent in dec.parts:
                if (off - parent) % 8:
                    bad.append(f"item {path} at offset {off - parent}: not on a slot boundary")
            if o._size % 8:
                bad.append(f"array size {o._size} is not a multiple of 8")
        except Exception as ex:
            bad.append(f"layout decoder failed: {type(ex).__name__}: {ex}")
        try:
            vw = cls._from_buffer(o._buffer, o._offset)
            for idx in idxs:
                if int(o._get_offset(idx)) != int(vw._get_offset(idx)):
                    bad.append(f"item {idx}: handle at {o._get_offset(idx)}, rebuilt view at {vw._get_offset(idx)}")
        except Exception as ex:
            bad.append(f"indexing through a rebuilt view raised {type(ex).__name__}: {str(ex)[:80]}")
    elif kind == "ref":
        pid, rk, mode = cfg
        # a target at the very offset of the reference slot exists for zero-sized objects: an empty struct
        # allocated immediately before a holder whose first field is the reference
        class E(xo.Struct):
            pass

        buf = xo.ContextCpu().new_buffer(256)
        if rk == "ref":
            class Hd(xo.Struct):
                r = xo.Ref(E)
                k = xo.Int64
        else:
            class UU(xo.UnionRef):
                _reftypes = [E]

            class Hd(xo.Struct):
                r = UU
                k = xo.Int64
        w = (detail or {}).get("w")
        if mode == "decode" and w not in (None, 0):
            # a stored word w other than the reserved null must resolve to slot + w
            h = Hd(k=5, _buffer=buf)
            xo.Int64._to_buffer(buf, h._offset, w)
            if rk == "uref":
                xo.Int64._to_buffer(buf, h._offset + 8, 0)
            got = h.r
            if (got is None) != (w == -(2**63)):
                bad.append(f"stored word {w} reads back as {'None' if got is None else 'non-null'}")
        else:
            e0 = E(_buffer=buf)
            h = Hd(k=5, _buffer=buf)
            if e0._offset == h._offset:
                h.r = e0
                if h.r is None:
                    bad.append(f"a {rk} bound to a live object at the slot's own offset ({h._offset}) reads back as None")
                if rk == "uref" and int(xo.Int64._from_buffer(buf, h._offset + 8)) != 0:
                    bad.append("member index not recorded")
            else:
                print("could not place a target at the slot's own offset"); return 2
    for m in bad:
        print("VIOLATED:", m)
    if not bad:
        print("property holds on this case")
    return 1 if bad else 0
