"""Scenarios on hybrid (Python-dressed) classes and on the dictionary / JSON / pickle forms: C18, C19, C20.

Same two-world discipline as checks/wmode.py: the real HybridClass machinery (descriptors, rename tables,
move/copy/_reinit_from_xobject, to_dict/from_dict, __getstate__/__setstate__) runs on buffers whose placement is
symbolic; class definitions, values and histories are enumerated (bounded catalogue, vx/hybrid.py)."""
import itertools

import numpy as np

import xobjects as xo

from vx import typegen as tg, values as V, hybrid as HY
from vx.wenv import is_symbolic
from checks import wmode
from checks.wmode import make_buffer, place_kwargs, NEIGHBOUR, NB_L, NB_R, sle, sand, sor, snot, other_scalar, other_string, fitting_value, disjoint_ok

try:
    import z3
    from vx import symx
    from vx.symx import T
except Exception:  # pragma: no cover
    z3 = None


def _guard(env, what, fn, *a):
    """run a library operation the property says works; an exception is a failed obligation"""
    try:
        return True, fn(*a)
    except BaseException as ex:
        if not isinstance(ex, Exception):
            raise
        import traceback

        tb = traceback.extract_tb(ex.__traceback__)
        from vx.report import in_repo

        if not any(in_repo(f.filename) for f in tb):
            raise  # the harness itself failed: reported as such by the driver
        env.check(False, f"{what}: raised {type(ex).__name__}: {str(ex)[:80]}")
        return False, None


def hread_ok(env, spec, h, exp, what):
    ok, got = _guard(env, what + " (reading the dressed attributes)", HY.hread, spec, h)
    if not ok:
        return False
    d = V.diff(got, exp)
    return env.check(d is None, f"{what}: {d}" if d else what)


def mirror_ok(env, spec, h, exp, when):
    """the dressed attributes, the underlying struct view and the model agree; nested dressed parts sit on the
    storage of the field they dress"""
    ok = hread_ok(env, spec, h, exp, f"C18 attributes of the dressed object read as expected {when}")
    t = HY.xo_ast(spec)
    ok2, raw = _guard(env, f"C18 reading the underlying struct {when}", V.readback, t, h._xobject)
    if ok2:
        d = V.diff(raw, exp)
        ok = env.check(d is None, f"C18 the underlying buffer data read as expected {when}" + (f": {d}" if d else "")) and ok
    ok = nested_on_field(env, spec, h, when) and ok
    return ok


def nested_on_field(env, spec, h, when):
    ok = True
    for fn, ft, _d in spec[2]:
        if not HY.is_h(ft):
            continue
        d = getattr(h, HY.pyname(spec, fn))
        r = getattr(h._xobject, fn)
        if not hasattr(d, "_xobject"):
            ok = env.check(False, f"C18 nested hybrid field {fn} is delivered dressed {when}") and ok
            continue
        ok = env.check(d._xobject._buffer is h._xobject._buffer, f"C18 the dressed nested part lives in its container's buffer {when}") and ok
        ok = env.check(env.eq(d._xobject._offset, r._offset), f"C18 the dressed nested part sits on the storage of the field it dresses {when}") and ok
        ok = nested_on_field(env, ft, d, when) and ok
    return ok


def build(env, spec, v, cfg, tag=""):
    t = HY.xo_ast(spec)
    buf = make_buffer(env, cfg, tag)
    kw = place_kwargs(env, cfg, buf, wmode.planned_size(t, HY_full(spec, v)) + 64, tag)
    nbL = NEIGHBOUR(NB_L, _buffer=buf)
    h = HY.make_h(spec, v, nested=cfg.get("nested", "dict"), **kw)
    nbR = NEIGHBOUR(NB_R, _buffer=buf)
    return buf, h, nbL, nbR


def HY_full(spec, v):
    full = dict(v)
    for fn, ft, d in spec[2]:
        if fn not in full and d is not None:
            full[fn] = HY.dval(d)
        if HY.is_h(ft) and fn in full:
            full[fn] = HY_full(ft, full[fn])
    return full


def neighbours_ok(env, nbL, nbR, when):
    env.check([int(x) for x in nbL] == NB_L, f"left neighbour unchanged {when}")
    env.check([int(x) for x in nbR] == NB_R, f"right neighbour unchanged {when}")


def second_value(spec, k=0):
    g = V.Gen(0, 2)
    g.c = itertools.count(41 + 5 * k)
    return g.sample(HY.xo_ast(spec))


def variant_of(spec, v, k=1):
    """another value with the same layout (same array lengths, same string byte counts): what an in-place
    assignment to a field of that layout accepts"""
    out = {}
    for fn, ft, _d in spec[2]:
        x = v.get(fn)
        if HY.is_h(ft):
            out[fn] = variant_of(ft, x, k + 1)
        elif ft[0] == "href":
            out[fn] = None
        elif ft[0] == "scalar":
            out[fn] = other_scalar(ft, x, k)
        elif ft[0] == "string":
            out[fn] = other_string(x, 3 * k + 1)
        else:
            new = _other_array(ft, x, k)
            out[fn] = x if new is None else new
        k += 1
    return out


def strip_refs(spec, v):
    """reference fields are bound after construction in these scenarios"""
    out = {}
    for fn, ft, _d in spec[2]:
        if fn not in v:
            continue
        if ft[0] == "href":
            out[fn] = None
        elif HY.is_h(ft):
            out[fn] = strip_refs(ft, v[fn])
        else:
            out[fn] = v[fn]
    return out


# --------------------------------------------------------------------------
# C18
def sc_c18(env, spec, v, cfg):
    v = strip_refs(spec, v)
    buf, h, nbL, nbR = build(env, spec, v, cfg)
    exp = HY.expected(spec, v)
    mirror_ok(env, spec, h, exp, "after construction")
    leaves = list(HY.hleaves(spec, HY_full(spec, v)))
    nested = [(fn, ft) for fn, ft, _ in spec[2] if HY.is_h(ft)]
    refs = [(fn, ft[1]) for fn, ft, _ in spec[2] if ft[0] == "href"]
    arrays = [(fn, ft) for fn, ft, _ in spec[2] if ft[0] == "array"]
    cur = HY_full(spec, v)
    for stepno, st in enumerate(cfg["history"]):
        what = f"C18 step {stepno} {st[0]}"
        cbuf = h._buffer  # "same buffer" = the one the object lives in NOW (it may have been moved)
        if st[0] in ("set", "setx") and leaves:
            path, lt, lv = leaves[st[1] % len(leaves)]
            lv = _at(cur, path)
            nv = fitting_value(lt, lv, stepno + 1)
            if nv is None:
                continue
            if st[0] == "set":
                ok, _ = _guard(env, what + f" of leaf {path} through the dressed attribute", HY.hset, spec, h, path, nv)
            else:
                ok, _ = _guard(env, what + f" of leaf {path} through the underlying struct", _xset, h._xobject, path, nv)
            if ok:
                cur = HY.vset(cur, path, nv)
        elif st[0] == "seta" and arrays:
            fn, ft = arrays[st[1] % len(arrays)]
            old = cur[fn]
            new = _other_array(ft, old, stepno + 1)
            if new is None:
                continue
            ok, _ = _guard(env, what + f" of array field {fn} through the dressed attribute", setattr, h, HY.pyname(spec, fn), np.array(new, dtype=tg.build(ft[1])._dtype) if st[2:] and st[2] == "nd" else new)
            if ok:
                cur = dict(cur, **{fn: new})
        elif st[0] == "setxa" and arrays:
            # an array element written through the underlying struct, typically after the buffer has grown under the
            # dressed object: the dressed attribute must show the buffer's data (M10-C18: a view kept across growth).
            # Real buffers only: the typed views of the symbolic buffer (S14) write back but do not alias reads, so a
            # legitimate cache of a view would look stale there.
            if env.symbolic:
                continue
            fn, ft = arrays[st[1] % len(arrays)]
            old = cur[fn]
            new = _other_array(ft, old, stepno + 1)
            if new is None:
                continue
            ok, _ = _guard(env, what + f" of the elements of array field {fn} through the underlying struct", _xseta, h._xobject, fn, new)
            if ok:
                cur = dict(cur, **{fn: new})
        elif st[0] == "assign_nested" and nested:
            fn, ft = nested[st[1] % len(nested)]
            ov = variant_of(ft, cur[fn], stepno + 1)
            where = st[2]
            # the assigned object lives at an ARBITRARY offset of an arbitrary other buffer (it may coincide
            # numerically with the offset of the field it is assigned to)
            ob = cbuf if where == "same" else env.buffer(tag=f"o{stepno}", N=1, alignment=1, roomy=4096)
            other = HY.make_h(ft, ov, _buffer=ob)
            # reference fields of the assigned object are bound to dressed objects of its own buffer
            bound = {}
            for rfn, rft, _d in ft[2]:
                if rft[0] == "href":
                    tv = strip_refs(rft[1], second_value(rft[1], stepno + 7))
                    tgt = HY.make_h(rft[1], tv, _buffer=ob)
                    okb, _ = _guard(env, what + f": binding reference field {rfn} of the object to be assigned", setattr, other, HY.pyname(ft, rfn), tgt)
                    if okb:
                        ov = dict(ov, **{rfn: HY_full(rft[1], tv)})
                        bound[rfn] = (tgt, rft[1], tv)
            oexp = HY.expected(ft, ov)
            m = env.mark()
            ok, _ = _guard(env, what + f" of a dressed object to non-reference field {fn}", setattr, h, HY.pyname(spec, fn), other)
            if ok:
                cur = dict(cur, **{fn: HY_full(ft, ov)})
                got = getattr(h, HY.pyname(spec, fn))
                env.check(got is not other and hasattr(got, "_xobject"), what + ": the field delivers a dressed object of its own, not the assigned one")
                if hasattr(got, "_xobject"):
                    env.check(got._xobject._buffer is h._xobject._buffer, what + ": the stored copy lives in the container's buffer")
                    if where == "same":
                        env.check(disjoint_ok(env, (got._xobject._offset, got._xobject._size), (other._xobject._offset, other._xobject._size)), what + ": the stored copy does not overlap the assigned object")
                # independence both ways
                ol = [(p, lt, x) for p, lt, x in HY.hleaves(ft, HY_full(ft, ov)) if lt[0] == "scalar"]
                if ol:
                    p2, lt2, x2 = ol[0]
                    HY.hset(ft, other, p2, other_scalar(lt2, x2, 1))
                    ov2 = HY.vset(HY_full(ft, ov), p2, other_scalar(lt2, x2, 1))
                    hread_ok(env, spec, h, HY.expected(spec, cur), what + ": a later write to the assigned object does not show in the container")
                    nv = other_scalar(lt2, x2, 2)
                    HY.hset(spec, h, (fn,) + p2, nv)
                    cur = HY.vset(cur, (fn,) + p2, nv)
                    hread_ok(env, ft, other, HY.expected(ft, ov2), what + ": a later write to the stored copy does not show in the assigned object")
                if where != "same":
                    # what the assigned object REFERS to was duplicated into the container's buffer with it: the stored copy's
                    # reference attribute shows the container's buffer, not the original referent
                    for rfn, (tgt, rspec, tv) in bound.items():
                        rl = [(p, lt, x) for p, lt, x in HY.hleaves(rspec, HY_full(rspec, tv)) if lt[0] == "scalar"]
                        if rl:
                            p3, lt3, x3 = rl[0]
                            _guard(env, what + f": a write to the object the assigned one refers to through {rfn}", HY.hset, rspec, tgt, p3, other_scalar(lt3, x3, 1))
                            hread_ok(env, spec, h, HY.expected(spec, cur), what + f": a later write to the ORIGINAL referent of {rfn} does not show in the container (the stored copy refers to a duplicate in its own buffer)")
        elif st[0] == "assign_ref" and refs:
            fn, rt = refs[st[1] % len(refs)]
            ov = strip_refs(rt, second_value(rt, stepno))
            where = st[2]
            if where == "same":
                other = HY.make_h(rt, ov, _buffer=cbuf)
                m = env.mark()
                ok, _ = _guard(env, what + f" of a dressed object in the same buffer to reference field {fn}", setattr, h, HY.pyname(spec, fn), other)
                if ok:
                    cur = dict(cur, **{fn: HY_full(rt, ov)})
                    got = getattr(h, HY.pyname(spec, fn))
                    env.check(hasattr(got, "_xobject") and got._xobject._buffer is other._xobject._buffer, what + ": the attribute delivers a dressed object on the assigned object's storage (shared, not copied)")
                    if hasattr(got, "_xobject"):
                        env.check(env.eq(got._xobject._offset, other._xobject._offset), what + ": the attribute delivers a dressed object on the assigned object's storage (same offset)")
                    raw = getattr(h._xobject, fn)
                    env.check(raw is not None, what + ": the reference in the buffer is set")
                    if raw is not None:
                        env.check(env.eq(raw._offset, other._xobject._offset), what + ": the reference in the buffer denotes the assigned object (same offset)")
                    ol = [(p, lt, x) for p, lt, x in HY.hleaves(rt, HY_full(rt, ov)) if lt[0] == "scalar"]
                    if ol:
                        p2, lt2, x2 = ol[0]
                        nv = other_scalar(lt2, x2, 1)
                        HY.hset(rt, other, p2, nv)
                        cur = HY.vset(cur, (fn,) + p2, nv)
            else:
                fb = env.buffer(tag=f"x{stepno}", N=1, alignment=1, roomy=4096)
                other = HY.make_h(rt, ov, _buffer=fb)
                raised = False
                try:
                    setattr(h, HY.pyname(spec, fn), other)
                except BaseException as ex:
                    if not isinstance(ex, Exception):
                        raise
                    raised = True
                env.check(raised, what + f": assigning an object of another buffer to reference field {fn} is refused")
        elif st[0] == "assign_ref_plain" and refs:
            # a plain (not dressed) value assigned to a reference field: the struct view of an object in the same
            # buffer, or None -- the attribute must follow the buffer, not a dressed object bound earlier
            fn, rt = refs[st[1] % len(refs)]
            if st[2] == "none":
                ok, _ = _guard(env, what + f" of None to reference field {fn}", setattr, h, HY.pyname(spec, fn), None)
                if ok:
                    cur = dict(cur, **{fn: None})
            else:
                ov = strip_refs(rt, second_value(rt, stepno + 3))
                other = HY.make_h(rt, ov, _buffer=cbuf)
                ok, _ = _guard(env, what + f" of a struct view in the same buffer to reference field {fn}", setattr, h, HY.pyname(spec, fn), other._xobject)
                if ok:
                    cur = dict(cur, **{fn: HY_full(rt, ov)})
                    raw = getattr(h._xobject, fn)
                    env.check(raw is not None, what + ": the reference in the buffer is set")
                    if raw is not None:
                        env.check(env.eq(raw._offset, other._xobject._offset), what + ": the reference in the buffer denotes the assigned object (same offset)")
        elif st[0] == "ref_release" and refs:
            # two holders share one object through their reference fields; ONE of them lets go (None / another object).
            # Whatever move() of the shared object does afterwards (the library refuses it), the attribute of the holder
            # that still refers to it keeps showing the buffer's data (M11-C18: one holder's release unpins the object)
            fn, rt = refs[st[1] % len(refs)]
            pn = HY.pyname(spec, fn)
            ov = strip_refs(rt, second_value(rt, stepno))
            other = HY.make_h(rt, ov, _buffer=cbuf)
            v2 = strip_refs(spec, second_value(spec, stepno + 2))
            ok, h2 = _guard(env, what + ": a second holder in the same buffer", lambda: HY.make_h(spec, v2, _buffer=cbuf))
            if not ok:
                continue
            ok1, _ = _guard(env, what + f": binding the object to reference field {fn} of the first holder", setattr, h, pn, other)
            ok2, _ = _guard(env, what + f": binding the object to reference field {fn} of the second holder", setattr, h2, pn, other)
            if st[2:] and st[2] == "rebind":
                other3 = HY.make_h(rt, strip_refs(rt, second_value(rt, stepno + 5)), _buffer=cbuf)
                ok3, _ = _guard(env, what + ": re-binding the first holder's field to another object", setattr, h, pn, other3)
                if ok3:
                    cur = dict(cur, **{fn: HY_full(rt, strip_refs(rt, second_value(rt, stepno + 5)))})
            else:
                ok3, _ = _guard(env, what + ": None to the first holder's field", setattr, h, pn, None)
                if ok3:
                    cur = dict(cur, **{fn: None})
            if ok1 and ok2 and ok3:
                try:
                    other.move(_buffer=env.fresh(4096, tag=f"r{stepno}"))
                except BaseException as ex:
                    if not isinstance(ex, Exception):
                        raise
                cur2 = dict(HY_full(spec, v2), **{fn: HY_full(rt, ov)})
                ol = [(p, lt, x) for p, lt, x in HY.hleaves(rt, HY_full(rt, ov)) if lt[0] == "scalar"]
                if ol:
                    p2, lt2, x2 = ol[0]
                    nv = other_scalar(lt2, x2, 1)
                    _guard(env, what + ": a write through the second holder's attribute", HY.hset, spec, h2, (fn,) + p2, nv)
                    cur2 = HY.vset(cur2, (fn,) + p2, nv)
                mirror_ok(env, spec, h2, HY.expected(spec, cur2), f"for the holder that still shares the object, after step {stepno} ({st[0]})")
        elif st[0] == "ref_part_release" and refs and nested:
            # a reference field bound to a part nested in the object, then released: the part stays a part (not movable)
            pair = [(fn, rt, nf) for fn, rt in refs for nf, nt in nested if nt == rt]
            if not pair:
                continue
            fn, rt, nf = pair[st[1] % len(pair)]
            part = getattr(h, HY.pyname(spec, nf))
            ok1, _ = _guard(env, what + f": binding nested part {nf} to reference field {fn}", setattr, h, HY.pyname(spec, fn), part)
            ok3, _ = _guard(env, what + f": None to reference field {fn}", setattr, h, HY.pyname(spec, fn), None)
            if ok3:
                cur = dict(cur, **{fn: None})
            elif ok1:
                cur = dict(cur, **{fn: cur[nf]})
            raised = False
            try:
                getattr(h, HY.pyname(spec, nf)).move(_buffer=env.fresh(4096, tag=f"q{stepno}"))
            except BaseException as ex:
                if not isinstance(ex, Exception):
                    raise
                raised = True
            env.check(raised, what + f": moving the object nested in field {nf} is refused (also after a reference to it was released)")
        elif st[0] == "copy":
            where = st[1]
            m = env.mark()
            if where == "same":
                ok, c = _guard(env, what + " into the same buffer", lambda: h.copy(_buffer=cbuf))
            elif where == "other":
                nb = env.fresh(0, tag=f"c{stepno}")
                ok, c = _guard(env, what + " into another buffer", lambda: h.copy(_buffer=nb))
            else:
                ok, c = _guard(env, what + " (default: a new buffer of the same context)", lambda: h.copy())
            if ok:
                cexp = HY.expected(spec, cur)
                env.check(type(c) is type(h), what + ": the copy is an object of the same hybrid class")
                hread_ok(env, spec, c, cexp, what + ": the copy is equal to the original")
                nested_on_field(env, spec, c, "in the copy")
                if c._buffer is h._buffer:
                    # (where copy() without a target puts the copy is the library's choice: same buffer or a new one)
                    env.check(where != "other", what + ": the copy lives in the requested buffer")
                    env.check(disjoint_ok(env, (c._xobject._offset, c._xobject._size), (h._xobject._offset, h._xobject._size)), what + ": the copy does not overlap the original")
                else:
                    env.check(where != "same", what + ": the copy lives in the requested buffer")
                ls = [(p, lt) for p, lt, _ in leaves if lt[0] == "scalar"]
                if ls:
                    p2, lt2 = ls[0]
                    x2 = _at(cur, p2)
                    HY.hset(spec, c, p2, other_scalar(lt2, x2, 1))
                    hread_ok(env, spec, h, HY.expected(spec, cur), what + ": a write to the copy does not show in the original")
                    nv = other_scalar(lt2, x2, 2)
                    HY.hset(spec, h, p2, nv)
                    cur = HY.vset(cur, p2, nv)
                    hread_ok(env, spec, c, HY.vset(cexp, p2, V.expected(lt2, other_scalar(lt2, x2, 1))), what + ": a write to the original does not show in the copy")
        elif st[0] == "move":
            where = st[1]
            nb = env.fresh(0, tag=f"m{stepno}") if where == "other" else cbuf
            if HY.has_href(spec):
                raised = False
                try:
                    h.move(_buffer=nb)
                except BaseException as ex:
                    if not isinstance(ex, Exception):
                        raise
                    raised = True
                env.check(raised, what + ": moving an object that contains references is refused")
            else:
                old_off = h._xobject._offset
                ok, _ = _guard(env, what + f" to {'another' if where == 'other' else 'the same'} buffer", lambda: h.move(_buffer=nb))
                if ok:
                    env.check(h._buffer is nb, what + ": the object lives in the target buffer afterwards")
                    if where != "other":
                        env.check(snot(env, env.eq(h._xobject._offset, old_off)), what + ": the object was relocated")
        elif st[0] == "move_nested" and nested:
            fn, ft = nested[st[1] % len(nested)]
            d = getattr(h, HY.pyname(spec, fn))
            raised = False
            try:
                d.move(_buffer=env.fresh(4096, tag=f"n{stepno}"))
            except BaseException as ex:
                if not isinstance(ex, Exception):
                    raise
                raised = True
            env.check(raised, what + f": moving the object nested in field {fn} is refused")
        else:
            continue
        mirror_ok(env, spec, h, HY.expected(spec, cur), f"after step {stepno} ({st[0]})")
    if h._buffer is buf:
        neighbours_ok(env, nbL, nbR, "by the history")
    env.reach()


def _at(v, path):
    for fn in path:
        v = v[fn]
    return v


def _xset(xobj, path, value):
    for fn in path[:-1]:
        xobj = getattr(xobj, fn)
    setattr(xobj, path[-1], value)


def _xseta(xobj, fn, new):
    arr = getattr(xobj, fn)
    a = np.array(new)
    for idx in np.ndindex(a.shape):
        arr[idx if len(idx) > 1 else idx[0]] = a[idx].item()


def _other_array(ft, old, k):
    """another value of the same shape for an array-of-scalars field"""
    lt = ft[1]

    def rec(x, i=[0]):
        if isinstance(x, list):
            return [rec(y, i) for y in x]
        i[0] += 1
        return other_scalar(lt, x, k + i[0])

    if not isinstance(old, list) or not _count(old):
        return None
    return rec(old, [0])


def _count(x):
    return sum(_count(y) for y in x) if isinstance(x, list) else 1


wmode.SCENARIOS["c18"] = sc_c18


def _zero_like(ft, x):
    if ft[0] == "scalar":
        return 0.0 if ft[1].startswith("Float") else 0
    if ft[0] == "string":
        return ""
    if ft[0] == "href":
        return None
    return [_zero_like(("array", ft[1], ft[2][1:], None) if len(ft[2]) > 1 else ft[1], y) for y in x]


def with_defaults(spec, v, mode):
    """values coinciding with the declared defaults (mode 'all') or only in nested classes ('nested')"""
    out = dict(v)
    for fn, ft, d in spec[2]:
        if HY.is_h(ft) and mode in ("nested0", "zero"):
            # every field of the nested object at the default of the NESTED class: declared, or zero / empty
            out[fn] = with_defaults(ft, v[fn], "zero")
        elif mode == "zero":
            out[fn] = HY.dval(d) if d is not None else _zero_like(ft, v[fn])
        elif HY.is_h(ft):
            out[fn] = with_defaults(ft, v[fn], "all" if mode == "nested" else mode)
        elif d is not None and mode == "near" and ft[0] == "scalar" and ft[1].startswith("Float") and not HY.is_factory(d) and float(d) != 0.0:
            # the neighbouring floating-point number of the declared default: NOT equal to it, must be stored (M12-C19)
            dt = tg.build(ft)._dtype
            out[fn] = float(np.nextafter(np.dtype(dt).type(d), np.dtype(dt).type(np.inf)))
        elif d is not None and mode == "all":
            out[fn] = HY.dval(d)
        elif d is not None and mode == "bcast" and ft[0] == "array" and any(x is None for x in ft[2]):
            out[fn] = list(HY.dval(d)[:1])  # equal to the default only if compared by broadcasting
    return out


# --------------------------------------------------------------------------
# C19
def _omitted_ok(env, spec, v, d, where=""):
    """fields whose value equals their DECLARED default are left out of the dictionary form"""
    ok = True
    for fn, ft, dflt in spec[2]:
        pn = HY.pyname(spec, fn)
        if HY.is_h(ft):
            if isinstance(d.get(pn), dict):
                ok = _omitted_ok(env, ft, v[fn], d[pn], where + pn + ".") and ok
        elif dflt is not None and ft[0] in ("scalar", "array", "string"):
            dflt = HY.dval(dflt)
            if V.same(V.expected(ft, v.get(fn, dflt)), V.expected(ft, dflt)):
                ok = env.check(pn not in d, f"C19 a field equal to its declared default is omitted from the dictionary ({where}{pn})") and ok
    return ok


def sc_c19h(env, spec, v, cfg):
    v = strip_refs(spec, v) if cfg.get("refs") != "value" else v
    buf, h, nbL, nbR = build(env, spec, v, cfg)
    full = HY_full(spec, v)
    exp = HY.expected(spec, v)
    kw = {} if cfg.get("copy_to_cpu", True) else dict(copy_to_cpu=False)
    if spec[1] in HY.BASE_OF:
        # the class derives from another hybrid class: an object of the BASE class is turned into its dictionary form first
        # (M10-C19: what the base class worked out for itself must not be taken for the derived class)
        bspec = HY.BASE_OF[spec[1]]
        _guard(env, "C19 to_dict() of an object of the base class", lambda: HY.make_h(bspec, {"n": 7, "x": 1.0}, _buffer=buf).to_dict(**kw))
    m = env.mark()
    ok, d = _guard(env, "C19 to_dict()", lambda: h.to_dict(**kw))
    if not ok:
        env.reach()
        return
    env.check(isinstance(d, dict), "C19 the dictionary form is a dictionary")
    _omitted_ok(env, spec, full, d)
    hread_ok(env, spec, h, exp, "C19 to_dict() leaves the object unchanged")
    buf2 = env.fresh(0, tag="d", alignment=cfg.get("alignment", 1)) if cfg.get("second") == "grown" else make_buffer(env, dict(cfg, placement="default" if cfg["placement"] == "explicit" else cfg["placement"]), tag="d")
    ok, h2 = _guard(env, "C19 from_dict(to_dict())", lambda: type(h).from_dict(d, _buffer=buf2))
    if ok:
        env.check(type(h2) is type(h), "C19 from_dict builds an object of the class")
        hread_ok(env, spec, h2, exp, "C19 the object rebuilt from the dictionary form is equal to the original")
        nested_on_field(env, spec, h2, "in the rebuilt object")
        # and once more from its own dictionary (the form is stable)
        ok, d2 = _guard(env, "C19 to_dict() of the rebuilt object", lambda: h2.to_dict(**kw))
        if ok:
            env.check(sorted(d2.keys()) == sorted(d.keys()), "C19 the rebuilt object has the same dictionary keys")
    neighbours_ok(env, nbL, nbR, "by to_dict/from_dict")
    env.reach()


def sc_c19j(env, t, v, cfg):
    B = wmode.construct(env, t, v, cfg)
    ok, j = _guard(env, "C19 _to_json()", lambda: B.obj._to_json())
    if not ok:
        env.reach()
        return
    wmode.read_ok(env, t, B.obj, B.exp, "C19 _to_json() leaves the object unchanged")
    buf2 = env.fresh(0, tag="d", alignment=cfg.get("alignment", 1)) if cfg.get("second") == "grown" else make_buffer(env, dict(cfg, placement="default" if cfg["placement"] in ("explicit", "context") else cfg["placement"]), tag="d")
    ok, y = _guard(env, "C19 constructing the type from the JSON form", lambda: tg.build(t)(j, _buffer=buf2))
    if ok:
        wmode.read_ok(env, t, y, B.exp, "C19 the object built from the JSON form reproduces the original")
    wmode.neighbours_intact(env, B, "by _to_json")
    env.reach()


wmode.SCENARIOS["c19h"] = sc_c19h
wmode.SCENARIOS["c19j"] = sc_c19j


# --------------------------------------------------------------------------
# C20 (hybrid classes)
def sc_c20h(env, spec, v, cfg):
    v = strip_refs(spec, v)
    buf, h, nbL, nbR = build(env, spec, v, cfg)
    exp = HY.expected(spec, v)
    v2 = variant_of(spec, HY_full(spec, v), 2)
    h2 = HY.make_h(spec, v2, _buffer=buf)
    exp2 = HY.expected(spec, v2)
    m0 = env.mark()
    try:
        c1, c2, cn = env.pickle_roundtrip([h, h2, nbL])
    except BaseException as ex:
        if not isinstance(ex, Exception):
            raise
        env.check(False, f"C20 pickling/unpickling hybrid objects raised {type(ex).__name__}: {str(ex)[:80]}")
        env.reach()
        return
    env.no_stores_since(m0, "C20 pickling does not modify the originals' buffer")
    wmode.pickle_again_ok(env, [h, h2, nbL], buf, lambda cs: hread_ok(env, spec, cs[0], exp, "C20 a second pickling of the same objects gives the same value again"))
    env.check(type(c1) is type(h), "C20 the unpickled object is of the hybrid class")
    env.check(c1._buffer is not buf, "C20 the unpickled hybrid object lives in a buffer of its own")
    env.check(c1._buffer is c2._buffer and c1._buffer is cn._buffer, "C20 hybrid objects pickled together that shared a buffer still share one")
    hread_ok(env, spec, c1, exp, "C20 the unpickled hybrid object has the same value at every field")
    hread_ok(env, spec, c2, exp2, "C20 the second unpickled hybrid object has the same value at every field")
    nested_on_field(env, spec, c1, "after unpickling")
    sz = c1._xobject._size
    env.check(sz is not None and sand(env, sle(env, 0, c1._xobject._offset), sle(env, c1._xobject._offset + sz, c1._buffer.capacity)), "C20 the unpickled hybrid object reports a size and lies inside the restored buffer")
    # further reads and writes
    cur = HY_full(spec, v)
    n = 0
    for path, lt, lv in HY.hleaves(spec, cur):
        nv = fitting_value(lt, lv, 1)
        if nv is None:
            continue
        n += 1
        if n > 3:
            break
        m = env.mark()
        ok, _ = _guard(env, f"C20 assignment at {path} of the unpickled hybrid object", HY.hset, spec, c1, path, nv)
        if ok:
            env.frame(m, [(c1._buffer, c1._xobject._offset, c1._xobject._size)], f"C20 a write through the unpickled hybrid object touches only that object (leaf {path})")
            cur = HY.vset(cur, path, nv)
    hread_ok(env, spec, c1, HY.expected(spec, cur), "C20 the unpickled hybrid object reads back what was written through it")
    ok2, raw = _guard(env, "C20 reading the underlying struct of the unpickled hybrid object", V.readback, HY.xo_ast(spec), c1._xobject)
    if ok2:
        d = V.diff(raw, HY.expected(spec, cur))
        env.check(d is None, "C20 the underlying buffer data of the unpickled hybrid object agree with its attributes" + (f": {d}" if d else ""))
    hread_ok(env, spec, h, exp, "C20 the original hybrid object is unaffected by writes through the unpickled one")
    hread_ok(env, spec, c2, exp2, "C20 the second unpickled hybrid object is unaffected by writes through the first")
    wmode.allocator_state_ok(env, c1._buffer, [(c._xobject._offset, c._xobject._size) for c in (c1, c2)] + [(cn._offset, cn._size)], "C20")
    try:
        extra = NEIGHBOUR(NB_R, _buffer=c1._buffer)
    except BaseException as ex:
        if not isinstance(ex, Exception):
            raise
        env.check(False, f"C20 allocating in the restored buffer raised {type(ex).__name__}: {str(ex)[:80]}")
        env.reach()
        return
    ex_ext = (extra._offset, extra._size)
    for c, nm in ((c1, "first"), (c2, "second")):
        env.check(disjoint_ok(env, ex_ext, (c._xobject._offset, c._xobject._size)), f"C20 an object allocated in the restored buffer does not overlap the {nm} unpickled hybrid object")
    env.check(disjoint_ok(env, ex_ext, (cn._offset, cn._size)), "C20 an object allocated in the restored buffer does not overlap the unpickled array")
    hread_ok(env, spec, c1, HY.expected(spec, cur), "C20 the unpickled hybrid object is intact after an allocation in the restored buffer")
    hread_ok(env, spec, c2, exp2, "C20 the second unpickled hybrid object is intact after an allocation in the restored buffer")
    ok, cc = _guard(env, "C20 copying the unpickled hybrid object", lambda: c2.copy(_buffer=env.fresh(0, tag="cp")))
    if ok:
        hread_ok(env, spec, cc, exp2, "C20 a copy made from the unpickled hybrid object has its value")
    env.reach()


wmode.SCENARIOS["c20h"] = sc_c20h
