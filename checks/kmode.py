"""C17 (PARTIAL): what a kernel call hands to the compiled function.

Symbolic run: the real `KernelCpu.__call__` / `to_function_arg` and the real `KernelDispatcher` are executed for
objects living at SYMBOLIC offsets of symbolically placed (and grown) buffers.  The three foreign calls of that code
are stubs (S15): `ffi.from_buffer(x)` -> the address of the first byte of x, `ffi.cast(ctype, address)` -> a typed
pointer, `np.frombuffer(storage).ctypes.data` -> the address of the storage; an address is (storage identity, z3
offset term).  The compiled function is a recorder that does what cffi does at the call: it refuses a pointer whose C
type is not the declared one, and keeps the arguments.  Obligations (z3): every xobject argument is a pointer to
(current storage of its buffer, the object's offset); every xobject array passed where a pointer to scalars is
declared points to (current storage, offset + data offset); declared order; the return value comes back unchanged.

Concrete run (validation of S15 and everything the stubs hide): the same scenario with real compiled probe kernels
that report what they received (address minus buffer base, first element, the scalar itself).
"""
import itertools

import numpy as np

import xobjects as xo
from xobjects.context_cpu import KernelCpu, ContextCpu
from xobjects.context import KernelDispatcher

from vx import typegen as tg, values as V
from vx.wenv import is_symbolic
from checks import wmode
from checks.wmode import make_buffer, NEIGHBOUR, NB_L, NB_R

try:
    import z3
    from vx import symx, symbuf
    from vx.symx import T
except Exception:  # pragma: no cover
    z3 = None

# ---------------------------------------------------------------------------
# the bounded family of kernel signatures
SCALARS = ["Int8", "Int16", "Int32", "Int64", "UInt8", "UInt16", "UInt32", "UInt64", "Float32", "Float64"]
CT = {"Int8": "int8_t", "Int16": "int16_t", "Int32": "int32_t", "Int64": "int64_t", "UInt8": "uint8_t", "UInt16": "uint16_t", "UInt32": "uint32_t", "UInt64": "uint64_t", "Float32": "float", "Float64": "double"}

_types = {}


def types():
    if _types:
        return _types

    class KQ(xo.Struct):
        x = xo.Float64
        y = xo.Int32

    class KP(xo.Struct):
        a = xo.Int64
        b = xo.Float64[:]
        q = KQ

    class KU(xo.UnionRef):
        _reftypes = [KQ, KP]

    class KH(xo.Struct):
        u = KU
        n = xo.Int16

    _types.update(KQ=KQ, KP=KP, KA=xo.Float64[:], KI=xo.Int32[:], KM=xo.Float64[:, 3], KH=KH)
    return _types


def values():
    return dict(
        KQ=dict(x=2.5, y=-7),
        KP=dict(a=41, b=[1.5, -2.5, 3.25], q=dict(x=0.5, y=9)),
        KA=[10.5, 11.5, 12.5, 13.5],
        KI=[7, -8, 9],
        KM=[[1.0, 2.0, 3.0], [4.0, 5.0, 6.0]],
        KH=dict(u=("KQ", dict(x=1.25, y=3)), n=-2),
    )


def kernels():
    """name -> (Kernel description, C body for the concrete probe)"""
    t = types()
    A = xo.Arg
    ks = {}
    for n in ("KQ", "KP", "KA", "KM", "KH"):
        ks["off_" + n] = (xo.Kernel(args=[A(t[n], name="obj"), A(xo.Int8, pointer=True, name="base")], ret=A(xo.Int64)), f"int64_t off_{n}({t[n]._c_type} obj, int8_t* base){{ return (int64_t)((char*)obj-(char*)base); }}")
    ks["off2"] = (
        xo.Kernel(args=[A(t["KP"], name="p"), A(xo.Int64, pointer=True, name="out"), A(t["KQ"], name="q"), A(xo.Int8, pointer=True, name="base")]),
        f"void off2({t['KP']._c_type} p, int64_t* out, {t['KQ']._c_type} q, int8_t* base){{ out[0]=(int64_t)((char*)p-(char*)base); out[1]=(int64_t)((char*)q-(char*)base); }}",
    )
    ks["elem_f64"] = (xo.Kernel(args=[A(xo.Float64, pointer=True, name="x"), A(xo.Int8, pointer=True, name="base")], ret=A(xo.Int64)), "int64_t elem_f64(double* x, int8_t* base){ return (int64_t)((char*)x-(char*)base); }")
    ks["elem_i32"] = (xo.Kernel(args=[A(xo.Int32, pointer=True, name="x"), A(xo.Int8, pointer=True, name="base")], ret=A(xo.Int64)), "int64_t elem_i32(int32_t* x, int8_t* base){ return (int64_t)((char*)x-(char*)base); }")
    ks["first_f64"] = (xo.Kernel(args=[A(xo.Float64, pointer=True, name="x"), A(xo.Int32, name="k")], ret=A(xo.Float64)), "double first_f64(double* x, int32_t k){ return x[k]; }")
    ks["poke_f64"] = (xo.Kernel(args=[A(xo.Float64, pointer=True, name="x"), A(xo.Float64, name="v")]), "void poke_f64(double* x, double v){ x[0] = v; }")
    for s in SCALARS:
        ks["id_" + s] = (xo.Kernel(args=[A(getattr(xo, s), name="v")], ret=A(getattr(xo, s))), f"{CT[s]} id_{s}({CT[s]} v){{ return v; }}")
    ks["mix"] = (
        xo.Kernel(args=[A(xo.Int8, name="a"), A(xo.Float64, name="b"), A(xo.UInt16, name="c"), A(xo.Int64, name="d")], ret=A(xo.Float64)),
        "double mix(int8_t a, double b, uint16_t c, int64_t d){ return (double)a*1000.0 + b + (double)c*0.001 + (double)(d%7)*1e6; }",
    )
    return ks


# ---------------------------------------------------------------------------
# S15: addresses and typed pointers of the symbolic run
class Addr:
    def __init__(self, store, off):
        self.store, self.off = store, off

    def __add__(self, k):
        return Addr(self.store, self.off + k)

    __radd__ = __add__


SIZEOF = {"int8_t": 1, "uint8_t": 1, "char": 1, "int16_t": 2, "uint16_t": 2, "int32_t": 4, "uint32_t": 4, "float": 4, "int64_t": 8, "uint64_t": 8, "double": 8}


class Ptr:
    def __init__(self, ctype, addr):
        self.ctype, self.addr = ctype, addr

    def __add__(self, k):
        """C pointer arithmetic: counts in elements of the pointed-to type (opaque struct types have no size)"""
        base = self.ctype[:-1] if self.ctype.endswith("*") else None
        if base not in SIZEOF:
            raise TypeError(f"ctype '{self.ctype}' points to items of unknown size")
        return Ptr(self.ctype, self.addr + k * SIZEOF[base])

    __radd__ = __add__


class _CT:
    def __init__(self, addr):
        self.data = addr


class _MemArr:
    def __init__(self, mem):
        self.ctypes = _CT(Addr(mem, 0))
        self.nbytes = self.size = 2**62  # "covers the whole storage" (a storage has no length of its own in the model)


class SymFFI:
    """what the code under test uses of a cffi FFI object"""

    NULL = None

    def from_buffer(self, *args, **kwargs):
        x = args[-1]  # from_buffer([cdecl,] python_buffer, require_writable=False)
        if isinstance(x, symbuf.MemView):
            return Addr(x.mem, x.start)
        if isinstance(x, symbuf.Mem):
            return Addr(x, 0)
        # a host object (memoryview of an ndarray): its own storage; the address of its first byte
        return Addr(("host", id(x), x), 0)

    def cast(self, ctype, x):
        if isinstance(x, Ptr):
            x = x.addr
        if not isinstance(x, Addr):
            raise TypeError(f"cast of {type(x).__name__}")
        return Ptr(ctype.replace(" ", ""), x)


class NPProxy:
    """numpy as seen by xobjects.context_cpu during the symbolic run: frombuffer of a symbolic storage gives an
    object whose .ctypes.data is the storage's address"""

    def __getattr__(self, name):
        return getattr(np, name)

    def frombuffer(self, x, *a, **k):
        if symbuf is not None and isinstance(x, symbuf.Mem):
            return _MemArr(x)
        return np.frombuffer(x, *a, **k)


class Recorder:
    """the compiled function: type check of the declared signature (as cffi does at the call), then record"""

    def __init__(self, desc, ret):
        self.desc, self.ret, self.calls = desc, ret, []

    def __call__(self, *args):
        if len(args) != len(self.desc.args):
            raise TypeError(f"expected {len(self.desc.args)} arguments, got {len(args)}")
        for a, x in zip(self.desc.args, args):
            want = a.get_c_type().replace(" ", "")
            if isinstance(x, Ptr):
                if x.ctype != want:
                    raise TypeError(f"initializer for ctype '{want}' must be a pointer to same type, not cdata '{x.ctype}'")
            elif a.pointer or not hasattr(a.atype, "_dtype"):
                raise TypeError(f"initializer for ctype '{want}' must be a cdata pointer, not {type(x).__name__}")
        self.calls.append(args)
        return self.ret


class CtxStub(ContextCpu):
    def __init__(self, omp):
        self.omp_num_threads = omp
        self.omp_calls = []

    def omp_set_num_threads(self, n):
        self.omp_calls.append(n)


def make_symcpu_ctx(env):
    """a context object for symbolic buffers that passes `isinstance(ctx, ContextCpu)`"""

    class SymCpuCtx(symbuf.SymCtx, ContextCpu):
        def __init__(self, world, kind, name):
            import weakref

            symbuf.SymCtx.__init__(self, world, kind, name)
            self._buffers = weakref.WeakSet()  # what ContextCpu's own state protocol expects to find
            self._kernels = {}

    return SymCpuCtx(env.world, env.kind, "cpu")


_compiled = {}


def compiled(ctx_key, omp):
    """real probe kernels, compiled once per process and OpenMP setting"""
    key = (ctx_key, omp)
    if key not in _compiled:
        ctx = ContextCpu(omp_num_threads=omp)
        ks = kernels()
        src = "\n".join("/*gpukern*/ " + body for _, body in ks.values())
        t = types()
        ctx.add_kernels(sources=[src], kernels={k: d for k, (d, _) in ks.items()}, extra_classes=[t["KQ"], t["KP"], t["KA"], t["KM"], t["KH"]])
        _compiled[key] = ctx
    return _compiled[key]


class Caller:
    """calls kernel `name` with kwargs through the real dispatcher and the real KernelCpu.__call__"""

    def __init__(self, env, omp):
        self.env, self.omp = env, omp
        self.ks = kernels()
        self.kerns = {}  # one KernelCpu per kernel name for the whole scenario, as a context keeps them (M11-C17: what a
        # kernel object remembers from an earlier call must not outlive a growth of the buffer)
        if not env.symbolic:
            self.ctx = compiled("c", omp)

    def call(self, name, ret=None, positional=(), **kwargs):
        desc = self.ks[name][0]
        if self.env.symbolic:
            if name not in self.kerns:
                rec = Recorder(desc, ret)
                self.kerns[name] = (rec, KernelCpu(function=rec, description=desc, ffi_interface=SymFFI(), context=CtxStub(self.omp)))
            rec, kern = self.kerns[name]
            rec.ret = ret
            out = KernelDispatcher(name, {name: kern})(*positional, **kwargs)
            return out, (rec.calls[-1] if rec.calls else None), kern
        out = getattr(self.ctx.kernels, name)(*positional, **kwargs)
        return out, None, None


def expect_refused(env, fn, what):
    try:
        fn()
    except BaseException as ex:
        if not isinstance(ex, Exception):
            raise
        return env.check(True, what)
    return env.check(False, what)


def sc_c17(env, t, v, cfg):
    """t = name of the probe group; cfg: placement, history of growth steps, omp"""
    ty, vals = types(), values()
    if env.symbolic:
        import xobjects.context_cpu as xcc

        saved = xcc.np
        xcc.np = NPProxy()
        try:
            return _sc_c17(env, t[1], cfg, ty, vals)
        finally:
            xcc.np = saved
    return _sc_c17(env, t[1], cfg, ty, vals)


def _sc_c17(env, group, cfg, ty, vals):
    omp = cfg.get("omp", 0)
    call = Caller(env, omp)
    ctx = make_symcpu_ctx(env) if env.symbolic else None
    pl = dict(cfg)
    if env.symbolic:
        buf = symbuf.arbitrary_buffer(env.e, env.world, tag="", N=cfg.get("N", 1), alignment=cfg.get("alignment", 1), grow_step=cfg.get("grow_step"), kind=env.kind, ctx=ctx, roomy=cfg.get("roomy")) if cfg["placement"] != "grown" else symbuf.fresh_buffer(env.world, 0, ctx=ctx, kind=env.kind, alignment=cfg.get("alignment", 1), name="fresh")
    else:
        buf = make_buffer(env, cfg)
    nbL = NEIGHBOUR(NB_L, _buffer=buf)
    objs = {}
    for n in ("KQ", "KP", "KA", "KI", "KM", "KH"):
        objs[n] = ty[n](vals[n], _buffer=buf)
        if n == "KP":
            objs["KP2"] = ty["KP"](dict(vals["KP"], a=42), _buffer=buf)  # several per buffer
    # history: growth after creation
    for stepno, st in enumerate(cfg.get("history", [])):
        if st[0] == "grow":
            buf.grow(env.int(f"g{stepno}", 1, 2**40))
        elif st[0] == "alloc":
            buf.allocate(env.int(f"n{stepno}", 1, 2**40))
        elif st[0] == "more":
            for k in range(3):
                ty["KA"](list(range(40)), _buffer=buf)

    def base():
        if env.symbolic:
            return np.zeros(1, dtype="int8")  # the recorder does not need the base
        return np.frombuffer(buf.buffer, dtype="int8")

    def points_to(p, want_ctype, obj_buf, off, what):
        """the pointer the function received"""
        ok = env.check(isinstance(p, Ptr) and p.ctype == want_ctype.replace(" ", ""), what + ": a pointer of the declared C type is passed")
        if isinstance(p, Ptr):
            ok = env.check(p.addr.store is obj_buf.buffer, what + ": it points into the CURRENT storage of the object's buffer") and ok
            ok = env.check(env.eq(p.addr.off, off), what + ": it points to the first byte of the object at its current offset") and ok
        return ok

    if group == "objects":
        for n in ("KQ", "KP", "KA", "KM", "KH"):
            o = objs[n]
            for o, tag in ((o, n),) + (((objs["KP2"], "KP#2"),) if n == "KP" else ()):
                out, args, _ = call.call("off_" + n, ret=123, obj=o, base=base())
                if env.symbolic:
                    points_to(args[0], ty[n]._c_type, o._buffer, o._offset, f"C17 xobject argument {tag}")
                    env.check(out == 123, "C17 the declared return value comes back unchanged")
                else:
                    env.check(int(out) == int(o._offset), f"C17 xobject argument {tag}: the kernel receives the address of the object's first byte (base + offset)")
        # the same kernels again after the buffer has grown under the objects (M11-C17): the pointer is into the storage the
        # buffer has NOW; the objects were written from Python in between, a kernel that writes must reach them
        if env.symbolic:
            buf.grow(env.int("g2nd", 1, 2**40))
        else:
            buf.grow(4096)
        objs["KP"].a = 77
        for n in ("KQ", "KP", "KA", "KM", "KH"):
            o = objs[n]
            out, args, _ = call.call("off_" + n, ret=124, obj=o, base=base())
            if env.symbolic:
                points_to(args[0], ty[n]._c_type, o._buffer, o._offset, f"C17 xobject argument {n}, second call after the buffer has grown")
            else:
                env.check(int(out) == int(o._offset), f"C17 xobject argument {n}, second call after the buffer has grown: the kernel receives the address of the object's first byte in the buffer's current storage")
        env.check(int(objs["KP"].a) == 77, "C17 kernel calls do not change the objects they are given")
        # duplicates made by pickling (own buffer, own storage): the pointer is into the DUPLICATE's storage (M10-C07)
        try:
            dups = env.pickle_roundtrip([objs["KQ"], objs["KP"]])
        except BaseException as ex:
            if not isinstance(ex, Exception):
                raise
            dups = None
            env.check(False, f"C17 pickling the argument objects raised {type(ex).__name__}: {str(ex)[:80]}")
        for n, d in zip(("KQ", "KP"), dups or ()):
            dbase = np.zeros(1, dtype="int8") if env.symbolic else np.frombuffer(d._buffer.buffer, dtype="int8")
            out, args, _ = call.call("off_" + n, ret=321, obj=d, base=dbase)
            if env.symbolic:
                env.check(d._buffer is not objs[n]._buffer, f"C17 unpickled {n}: lives in a buffer of its own")
                points_to(args[0], ty[n]._c_type, d._buffer, d._offset, f"C17 unpickled duplicate of {n} as argument")
            else:
                env.check(int(out) == int(d._offset), f"C17 unpickled duplicate of {n} as argument: the kernel receives the address of the duplicate's first byte (its own storage + offset)")
        out_arr = np.zeros(2, dtype="int64")
        _, args, _ = call.call("off2", p=objs["KP2"], out=out_arr, q=objs["KQ"], base=base())
        if env.symbolic:
            points_to(args[0], ty["KP"]._c_type, buf, objs["KP2"]._offset, "C17 first of two xobject arguments")
            points_to(args[2], ty["KQ"]._c_type, buf, objs["KQ"]._offset, "C17 second of two xobject arguments (declared order kept)")
            env.check(isinstance(args[1], Ptr) and args[1].ctype == "int64_t*", "C17 a NumPy array is passed as a pointer to its element type")
        else:
            env.check([int(x) for x in out_arr] == [int(objs["KP2"]._offset), int(objs["KQ"]._offset)], "C17 two xobject arguments: each received at its own address, in declared order")
    elif group == "arrays":
        for n, kn, ct in (("KA", "elem_f64", "double*"), ("KI", "elem_i32", "int32_t*"), ("KM", "elem_f64", "double*")):
            o = objs[n]
            try:
                out, args, _ = call.call(kn, ret=5, x=o, base=base())
            except BaseException as ex:
                if not isinstance(ex, Exception):
                    raise
                env.check(False, f"C17 an xobject array of scalars is accepted where a pointer to that scalar type is declared ({n}): raised {type(ex).__name__}: {str(ex)[:80]}")
                continue
            if env.symbolic:
                points_to(args[0], ct, o._buffer, o._offset + o._data_offset, f"C17 xobject array {n} as pointer argument (first element)")
            else:
                env.check(int(out) == int(o._offset) + int(o._data_offset), f"C17 xobject array {n} as pointer argument: the kernel receives the address of the first element")
        # NumPy arrays and slices: pointer to the first element
        a = np.array([3.5, 4.5, 5.5, 6.5, 7.5, 8.5])
        for arr, first, tag in ((a, 3.5, "array"), (a[2:], 5.5, "slice"), (a[1::2], 4.5, "strided slice"), (a.reshape(2, 3)[1:], 6.5, "2-D slice")):
            out, args, _ = call.call("first_f64", ret=first, x=arr, k=0)
            if env.symbolic:
                p = args[0]
                env.check(isinstance(p, Ptr) and p.ctype == "double*", f"C17 NumPy {tag}: a pointer to its element type is passed")
                if isinstance(p, Ptr):
                    host = p.addr.store[2] if isinstance(p.addr.store, tuple) else None
                    got = np.frombuffer(host, dtype="float64")[0] if host is not None and len(host) else None
                    env.check(got == first and p.addr.off == 0, f"C17 NumPy {tag}: the pointer is to its first element")
            else:
                env.check(float(out) == first, f"C17 NumPy {tag}: the kernel reads the first element through the pointer it received")
        # arrays and views that are not C-contiguous: still a pointer to THEIR first element, not to a temporary copy (M10-C17)
        m = np.arange(12.0).reshape(3, 4) + 0.5
        mbase = m.reshape(-1).view("int8")
        for arr, tag in ((m, "2-D array"), (m.T, "transposed view"), (m[:, 1:3], "block of columns"), (m[::-1], "rows in reverse"), (m[1:, ::2], "strided block"), (np.asfortranarray(m), "F-ordered array"), (m.T[1:], "slice of a transposed view")):
            own = arr if np.shares_memory(arr, m) else None
            want_addr = arr.__array_interface__["data"][0]
            rbase = mbase if own is not None else arr.T.reshape(-1).view("int8")  # the F-ordered array owns its data
            rbase_addr = rbase.__array_interface__["data"][0]
            out, args, _ = call.call("elem_f64", ret=7, x=arr, base=rbase)
            if env.symbolic:
                p = args[0]
                env.check(isinstance(p, Ptr) and p.ctype == "double*", f"C17 NumPy {tag}: a pointer to its element type is passed")
                if isinstance(p, Ptr):
                    host = p.addr.store[2] if isinstance(p.addr.store, tuple) else None
                    got_addr = np.asarray(host).__array_interface__["data"][0] if host is not None else None
                    env.check(got_addr == want_addr and p.addr.off == 0, f"C17 NumPy {tag}: the pointer is to the array's own first element (not to a copy)")
            else:
                env.check(int(out) == want_addr - rbase_addr, f"C17 NumPy {tag}: the kernel receives the address of the array's own first element")
                before = float(arr[(0,) * arr.ndim])
                call.call("poke_f64", x=arr, v=-99.25)
                env.check(float(arr[(0,) * arr.ndim]) == -99.25, f"C17 NumPy {tag}: a write of the kernel through the pointer reaches the array")
                arr[(0,) * arr.ndim] = before
        # wrong element type: refused
        expect_refused(env, lambda: call.call("first_f64", ret=0.0, x=np.array([1, 2, 3], dtype="int32"), k=0), "C17 a NumPy array of another element type is refused")
        expect_refused(env, lambda: call.call("first_f64", ret=0.0, x=np.array([1.0, 2.0], dtype="float32"), k=0), "C17 a NumPy float32 array is refused where double* is declared")
        # the same number type stored in the other byte order is another element type for the compiled function
        expect_refused(env, lambda: call.call("first_f64", ret=0.0, x=np.array([1.0, 2.0]).astype(np.dtype("float64").newbyteorder("S")), k=0), "C17 a NumPy float64 array of non-native byte order is refused where double* is declared")
        expect_refused(env, lambda: call.call("elem_i32", ret=0, x=np.array([1, 2, 3], dtype=np.dtype("int32").newbyteorder("S")), base=base()), "C17 a NumPy int32 array of non-native byte order is refused where int32_t* is declared")
        expect_refused(env, lambda: call.call("elem_f64", ret=0, x=objs["KI"], base=base()), "C17 an xobject Int32 array is refused where double* is declared")
        expect_refused(env, lambda: call.call("elem_i32", ret=0, x=objs["KA"], base=base()), "C17 an xobject Float64 array is refused where int32_t* is declared")
    elif group == "scalars":
        for s in SCALARS:
            dt = np.dtype(getattr(xo, s)._dtype)
            if dt.kind == "f":
                fi = np.finfo(dt)
                xs = [0.0, -0.0, 1.5, float(fi.max), float(fi.tiny), -float(fi.max), float(np.nextafter(dt.type(1), dt.type(2)))]
            else:
                ii = np.iinfo(dt)
                xs = [0, 1, int(ii.max), int(ii.min), int(ii.max) - 1]
            for x in xs:
                out, args, _ = call.call("id_" + s, ret=dt.type(x), v=x)
                if env.symbolic:
                    a0 = args[0]
                    env.check(type(a0) is dt.type and (a0 == dt.type(x)) and (float(a0) == float(x) if dt.kind == "f" else int(a0) == int(x)), f"C17 scalar {s}: the value handed to the function is the given value in the declared type")
                else:
                    same = (float(out) == float(x) and np.signbit(out) == np.signbit(x)) if dt.kind == "f" else int(out) == int(x)
                    env.check(same, f"C17 scalar {s}: the kernel receives (and returns) exactly the given value")
        out, args, _ = call.call("mix", ret=1.0, a=-3, b=0.25, c=65535, d=2**40 + 3)
        if env.symbolic:
            env.check([type(x).__name__ for x in args] == ["int8", "float64", "uint16", "int64"] and [float(x) for x in args] == [-3.0, 0.25, 65535.0, float(2**40 + 3)], "C17 several scalars: each converted to its own declared type, in declared order")
        else:
            env.check(float(out) == -3000.0 + 0.25 + 65.535 + float((2**40 + 3) % 7) * 1e6, "C17 several scalars arrive in declared order with their values")
    elif group == "arity":
        o = objs["KQ"]
        expect_refused(env, lambda: call.call("off_KQ", ret=0, positional=(o, base())), "C17 positional arguments are refused")
        expect_refused(env, lambda: call.call("off_KQ", ret=0, obj=o), "C17 a missing argument is refused")
        expect_refused(env, lambda: call.call("off_KQ", ret=0, obj=o, base=base(), extra=1), "C17 an extra argument is refused")
        expect_refused(env, lambda: call.call("off_KQ", ret=0, obj=o, bass=base()), "C17 a misspelt argument name is refused")
    env.check([int(x) for x in nbL] == NB_L, "C17 kernel calls leave the neighbouring object alone")
    env.reach()


wmode.SCENARIOS["c17"] = sc_c17
