"""C04 / C12 -- one inductive step of the real XBuffer.allocate / free / grow
from an arbitrary free-list state satisfying the representation invariant.

Symbolic (solver): capacity, every chunk bound, request size, grow step, grow
amount, freed region, one witness live region R (Skolem constant standing for
every other region currently handed out), a Skolem byte position x.
Enumerated: number of chunks N, alignment (powers of two), align flag, buffer
kind.
"""
import itertools
import json
import os
import sys

import z3

from vx import symx
from vx.symx import T, SymInt, Engine
from vx.report import Report, run_parallel, tier, seed

from xobjects.context import XBuffer, Chunk
import xobjects.context as xctx
from xobjects.context_cpu import BufferNumpy, BufferByteArray

BIG = 2**62
KINDS = {"BufferNumpy": BufferNumpy, "BufferByteArray": BufferByteArray}
R_MAX = 900  # recursion budget of CPython (1000) minus the caller's own frames


class _Ctx:
    minimum_alignment = 1


class Storage:
    """opaque stand-in for native storage; C13 is about its byte semantics"""

    n = 0

    def __init__(self, capacity):
        Storage.n += 1
        self.id = Storage.n
        self.capacity = capacity


def make_class(kind):
    class SymAlloc(kind):
        def __init__(self, *a, **k):
            self.calls = []
            self.depth = 0
            self.stop_at_recursion = False
            self.recursion_state = None
            super().__init__(*a, **k)

        def _make_context(self):
            return _Ctx()

        def _new_buffer(self, capacity):
            st = Storage(capacity)
            self.calls.append(("new", st, capacity))
            return st

        def copy_to_native(self, dest, dest_offset, source_offset, nbytes):
            self.calls.append(("copy", self.buffer, dest, dest_offset, source_offset, nbytes))

        def update_from_native(self, *a):
            self.calls.append(("store", "update_from_native"))

        def update_from_buffer(self, *a):
            self.calls.append(("store", "update_from_buffer"))

        def update_from_nplike(self, *a):
            self.calls.append(("store", "update_from_nplike"))

        def allocate(self, size, align=True):
            # the recursion `return self.allocate(...)` re-enters here
            if self.depth >= 1 and self.stop_at_recursion:
                self.recursion_state = (self.capacity, [(c.start, c.end) for c in self.chunks])
                raise StopRecursion()
            self.depth += 1
            try:
                return super().allocate(size, align)
            finally:
                self.depth -= 1

    SymAlloc.__name__ = "Sym" + kind.__name__
    return SymAlloc


class StopRecursion(Exception):
    pass


def build_state(e, cls, N, alignment, gs_mode):
    """arbitrary state satisfying the representation invariant I"""
    cap = e.sym("cap")
    cons = [cap.e >= 0, cap.e < BIG]
    cs = []
    prev = None
    for i in range(N):
        s, en = e.sym(f"s{i}"), e.sym(f"e{i}")
        cons += [s.e >= 0, s.e <= en.e, en.e <= cap.e]
        if prev is not None:
            cons.append(s.e > prev.e)  # sorted, disjoint, non-touching
        prev = en
        cs.append((s, en))
    gs = None
    if gs_mode:
        gs = e.sym("gs")
        cons += [gs.e >= 1, gs.e < BIG]
    # witness live region R: inside [0,cap], disjoint from every non-empty chunk
    r, rs = e.sym("r"), e.sym("rs")
    cons += [r.e >= 0, rs.e >= 0, r.e + rs.e <= cap.e]
    for s, en in cs:
        cons.append(z3.Or(rs.e == 0, s.e == en.e, en.e <= r.e, r.e + rs.e <= s.e))
    e.assume(z3.And(cons))
    b = cls(capacity=0, context=_Ctx(), default_alignment=alignment, grow_step=gs)
    b.calls.clear()
    b.capacity = cap
    b.chunks = [Chunk(s, en) for s, en in cs]
    return b, cap, cs, gs, (r, rs)


def small_hints(e):
    """prefer small counterexamples so that the replay can build them for real"""
    return [v <= 4096 for v in e.inputs.values()]


def chunks_of(b):
    return [(T(c.start), T(c.end)) for c in b.chunks]


def inv_obligations(e, post, cap2, tag):
    prev = None
    for i, (s, en) in enumerate(post):
        e.prove(z3.And(0 <= s, s <= en, en <= cap2), f"{tag}: chunk {i} well-formed and inside capacity")
        if prev is not None:
            e.prove(s > prev, f"{tag}: chunks sorted, disjoint and non-touching (coalesced)")
        prev = en


def member(x, chunks):
    return z3.Or([z3.And(s <= x, x < en) for s, en in chunks]) if chunks else z3.BoolVal(False)


def aligned(s, a):
    return s + ((a - s % a) % a)


# --------------------------------------------------------------------------
def h_allocate(cfg):
    pid, kind, N, alignment, use_align, gs_mode, K = cfg
    name = f"allocate[{kind},N={N},a={alignment},align={use_align},grow_step={'sym' if gs_mode else 'None'}]"
    e = Engine(name)
    cls = make_class(KINDS[kind])

    def body(e):
        b, cap, cs, gs, (r, rs) = build_state(e, cls, N, alignment, gs_mode)
        size = e.sym("size")
        a = alignment if use_align else 1
        cons = [size.e >= 0, size.e < BIG]
        if gs is not None:
            cons.append(size.e + a - 1 <= K * gs.e)  # unwinding bound: at most K growth rounds
        e.assume(z3.And(cons))
        pre = [(s.e, en.e) for s, en in cs]
        pre_free = sum([en - s for s, en in pre], z3.IntVal(0))
        det = lambda m: {"op": ["allocate", m.eval(size.e, model_completion=True).as_long(), use_align]}
        try:
            off = b.allocate(size, align=use_align)
        except Exception as ex:  # noqa
            e.fail(f"allocate raised {type(ex).__name__}", det)
            e.reach()
            return
        off = T(off)
        cap2 = T(b.capacity)
        post = chunks_of(b)
        G = cap2 - cap.e
        x = T(e.fresh_int("x"))
        region = z3.And(off <= x, x < off + size.e)
        # chunks of the pre-state extended by the growth area
        if pre:
            ext = list(pre[:-1]) + [(pre[-1][0], z3.If(pre[-1][1] == cap.e, cap2, pre[-1][1]))]
            ext.append((z3.If(pre[-1][1] == cap.e, cap2, cap.e), cap2))
        else:
            ext = [(cap.e, cap2)]
        if pid == "C04":
            e.prove(off % a == 0, "offset is a multiple of the requested alignment", det)
            e.prove(z3.And(off >= 0, off + size.e <= cap2), "region inside capacity", det)
            e.prove(cap2 >= cap.e, "capacity never shrinks", det)
            e.prove(
                z3.Or(rs.e == 0, size.e == 0, off + size.e <= r.e, r.e + rs.e <= off),
                "region disjoint from every live region",
                det,
            )
            e.prove(
                z3.Implies(region, z3.Or(member(x, pre), z3.And(cap.e <= x, x < cap2))),
                "every byte handed out was free or lies in the growth area",
                det,
            )
            e.prove(
                z3.Implies(member(x, post), z3.And(z3.Not(region), z3.Or(member(x, pre), z3.And(cap.e <= x, x < cap2)))),
                "free list after: excludes the region, nothing live became free",
                det,
            )
            inv_obligations(e, post, cap2, "after allocate")
            # storage: each growth copies exactly the old capacity to offset 0 of the new storage
            storage_obligations(e, b, cap.e, cap2, det)
        else:  # C12
            for j, (s, en) in enumerate(pre):
                al = aligned(s, a)
                e.prove(
                    z3.Implies(al + size.e <= en, off <= al),
                    f"first fit: no lower chunk (#{j}) could have served the request",
                    det,
                )
                e.prove(
                    z3.Implies(al + size.e <= en, cap2 == cap.e),
                    "buffer enlarged only when no free chunk can hold the request",
                    det,
                )
            e.prove(cap2 >= cap.e, "capacity never shrinks", det)
            # lowest fitting position of the (grown) free list
            for j, (s, en) in enumerate(ext):
                al = aligned(s, a)
                e.prove(
                    z3.Implies(z3.And(s <= en, al + size.e <= en), off <= al),
                    f"placement is the lowest fitting position of the grown free list (#{j})",
                    det,
                )
            e.prove(
                z3.Or([z3.And(s <= en, off == aligned(s, a), off + size.e <= en) for s, en in ext]),
                "offset is the aligned start of a chunk that holds the request",
                det,
            )
            # accounting: free' = free + growth - size - padding
            post_free = sum([en - s for s, en in post], z3.IntVal(0))
            e.prove(
                z3.Or([z3.And(s <= en, off == aligned(s, a), off + size.e <= en, post_free == pre_free + G - size.e - (off - s)) for s, en in ext]),
                "free total decreases by exactly size + alignment padding",
                det,
            )
            e.prove(
                z3.Implies(z3.And(z3.Or(member(x, pre), z3.And(cap.e <= x, x < cap2)), z3.Not(region), z3.Not(member(x, post))),
                           z3.Or([z3.And(s <= x, x < off, off == aligned(s, a)) for s, en in ext])),
                "no leak: a byte leaves the free list only as part of the region or its alignment padding",
                det,
            )
            inv_obligations(e, post, cap2, "after allocate")
        e.reach()

    e.explore(body)
    res = e.result()
    res["cfg"] = list(cfg)
    return res


def storage_obligations(e, b, cap0, cap2, det):
    news = [c for c in b.calls if c[0] == "new"]
    copies = [c for c in b.calls if c[0] == "copy"]
    stores = [c for c in b.calls if c[0] == "store"]
    e.prove(z3.BoolVal(len(stores) == 0), "allocator operations never store into the buffer", det)
    e.prove(z3.BoolVal(len(news) == len(copies)), "one copy per new storage", det)
    prevcap = cap0
    cur = None
    for nw, cp in zip(news, copies):
        _, src, dest, doff, soff, nbytes = cp
        e.prove(z3.BoolVal(dest is nw[1]), "growth copies into the storage it just created", det)
        if cur is not None:
            e.prove(z3.BoolVal(src is cur), "growth copies from the current storage", det)
        e.prove(z3.And(T(doff) == 0, T(soff) == 0, T(nbytes) == prevcap), "growth copies exactly the old capacity to offset 0", det)
        e.prove(T(nw[2]) >= prevcap, "new storage at least as large as old capacity", det)
        prevcap = T(nw[2])
        cur = nw[1]
    if news:
        e.prove(z3.BoolVal(b.buffer is news[-1][1]), "buffer attribute points at the newest storage", det)
        e.prove(prevcap == cap2, "recorded capacity equals the size of the newest storage", det)
    else:
        e.prove(cap2 == cap0, "capacity changes only together with new storage", det)


def h_free(cfg):
    pid, kind, N, alignment = cfg
    name = f"free[{kind},N={N},a={alignment}]"
    e = Engine(name)
    cls = make_class(KINDS[kind])

    def body(e):
        b, cap, cs, gs, (r, rs) = build_state(e, cls, N, alignment, False)
        o, sz = e.sym("fo"), e.sym("fs")
        cons = [o.e >= 0, sz.e >= 0, o.e + sz.e <= cap.e]
        # the freed region is live: disjoint from chunks and from the other live region R
        for s, en in cs:
            cons.append(z3.Or(sz.e == 0, s.e == en.e, en.e <= o.e, o.e + sz.e <= s.e))
        cons.append(z3.Or(sz.e == 0, rs.e == 0, r.e + rs.e <= o.e, o.e + sz.e <= r.e))
        e.assume(z3.And(cons))
        pre = [(s.e, en.e) for s, en in cs]
        det = lambda m: {"op": ["free", m.eval(o.e, model_completion=True).as_long(), m.eval(sz.e, model_completion=True).as_long()]}
        try:
            b.free(o, sz)
        except Exception as ex:  # noqa
            if pid == "C12":
                e.fail(f"free raised {type(ex).__name__}", det)
            e.reach()
            return
        post = chunks_of(b)
        cap2 = T(b.capacity)
        x = T(e.fresh_int("x"))
        freed = z3.And(o.e <= x, x < o.e + sz.e)
        if pid == "C04":
            e.prove(cap2 == cap.e, "free leaves capacity unchanged", det)
            e.prove(z3.Implies(member(x, post), z3.Or(member(x, pre), freed)), "free releases only the freed bytes", det)
            e.prove(
                z3.Implies(z3.And(r.e <= x, x < r.e + rs.e), z3.Not(member(x, post))),
                "other live regions stay out of the free list",
                det,
            )
            inv_obligations(e, post, cap2, "after free")
            storage_obligations(e, b, cap.e, cap2, det)
        else:
            e.prove(member(x, post) == z3.Or(member(x, pre), freed), "free list after = free list before + exactly the freed bytes", det)
            inv_obligations(e, post, cap2, "after free")
            post_free = sum([en - s for s, en in post], z3.IntVal(0))
            pre_free = sum([en - s for s, en in pre], z3.IntVal(0))
            e.prove(post_free == pre_free + sz.e, "free total grows by exactly the freed size", det)
            e.prove(T(b.get_free()) == post_free, "get_free reports the sum of chunk sizes", det)
        e.reach()

    e.explore(body)
    res = e.result()
    res["cfg"] = list(cfg)
    return res


def h_grow(cfg):
    pid, kind, N, alignment = cfg
    name = f"grow[{kind},N={N},a={alignment}]"
    e = Engine(name)
    cls = make_class(KINDS[kind])

    def body(e):
        b, cap, cs, gs, (r, rs) = build_state(e, cls, N, alignment, False)
        n = e.sym("n")
        e.assume(z3.And(n.e >= 0, n.e < BIG))
        pre = [(s.e, en.e) for s, en in cs]
        det = lambda m: {"op": ["grow", m.eval(n.e, model_completion=True).as_long()]}
        try:
            b.grow(n)
        except Exception as ex:  # noqa
            e.fail(f"grow raised {type(ex).__name__}", det)
            e.reach()
            return
        post = chunks_of(b)
        cap2 = T(b.capacity)
        x = T(e.fresh_int("x"))
        e.prove(cap2 == cap.e + n.e, "grow adds exactly n bytes of capacity", det)
        e.prove(
            member(x, post) == z3.Or(member(x, pre), z3.And(cap.e <= x, x < cap2)),
            "free list after grow = free list before + the new area",
            det,
        )
        inv_obligations(e, post, cap2, "after grow")
        if pid == "C04":
            storage_obligations(e, b, cap.e, cap2, det)
        e.reach()

    e.explore(body)
    res = e.result()
    res["cfg"] = list(cfg)
    return res


def h_init(cfg):
    pid, kind, alignment = cfg
    name = f"init[{kind},a={alignment}]"
    e = Engine(name)
    cls = make_class(KINDS[kind])

    def body(e):
        cap = e.sym("cap")
        e.assume(z3.And(cap.e >= 0, cap.e < BIG))
        b = cls(capacity=cap, context=_Ctx(), default_alignment=alignment, grow_step=None)
        post = chunks_of(b)
        det = lambda m: {"op": ["init"]}
        x = T(e.fresh_int("x"))
        e.prove(T(b.capacity) == cap.e, "capacity recorded", det)
        e.prove(member(x, post) == z3.And(0 <= x, x < cap.e), "a new buffer is entirely free", det)
        inv_obligations(e, post, cap.e, "after __init__")
        e.prove(z3.BoolVal(b.default_alignment == alignment), "alignment recorded", det)
        news = [c for c in b.calls if c[0] == "new"]
        e.prove(z3.BoolVal(len(news) == 1), "one storage created", det)
        if news:
            e.prove(T(news[0][2]) == cap.e, "storage has the requested capacity", det)
        e.reach()

    e.explore(body)
    res = e.result()
    res["cfg"] = list(cfg)
    return res


def h_rank(cfg):
    """termination: one growth round from an arbitrary state where nothing fits.
    Ranking measure D = aligned(tail start)+size-cap (bytes missing at the tail);
    obligations: the round strictly reduces D by the growth amount, and
    D <= R_MAX * growth, i.e. the self-recursion stays inside CPython's budget."""
    pid, kind, N, alignment, use_align, gs_mode = cfg
    name = f"rank[{kind},N={N},a={alignment},align={use_align},grow_step={'sym' if gs_mode else 'None'}]"
    e = Engine(name)
    cls = make_class(KINDS[kind])

    def body(e):
        b, cap, cs, gs, (r, rs) = build_state(e, cls, N, alignment, gs_mode)
        size = e.sym("size")
        a = alignment if use_align else 1
        pre = [(s.e, en.e) for s, en in cs]
        cons = [size.e >= 0, size.e < BIG]
        for s, en in pre:  # nothing fits
            cons.append(aligned(s, a) + size.e > en)
        e.assume(z3.And(cons))
        det = lambda m: {"op": ["allocate", m.eval(size.e, model_completion=True).as_long(), use_align]}
        b.stop_at_recursion = True
        try:
            b.allocate(size, align=use_align)
            e.reach("returned-without-recursion")
            return
        except StopRecursion:
            pass
        except Exception as ex:  # noqa
            e.fail(f"allocate raised {type(ex).__name__}", det)
            e.reach()
            return
        cap2, post = b.recursion_state
        cap2 = T(cap2)
        post = [(T(s), T(en)) for s, en in post]
        G = cap2 - cap.e
        if pre:
            t = z3.If(pre[-1][1] == cap.e, pre[-1][0], cap.e)
        else:
            t = cap.e
        D = aligned(t, a) + size.e - cap.e
        e.prove(G >= 0, "capacity never shrinks", det)
        fits_now = z3.Or([aligned(s, a) + size.e <= en for s, en in post])
        e.prove(z3.Or(fits_now, G >= 1), "a growth round that does not satisfy the request makes progress", det)
        e.prove(z3.Or(fits_now, D <= R_MAX * G), "rounds of self-recursion needed stay within the interpreter's recursion budget", det)
        inv_obligations(e, post, cap2, "after growth round")
        e.reach()

    e.explore(body)
    res = e.result()
    res["cfg"] = list(cfg)
    return res


def h_coalesce(cfg):
    """two adjacent live regions are freed (either order); their sum is then served without growth"""
    pid, kind, N, alignment, order = cfg
    name = f"coalesce[{kind},N={N},a={alignment},order={order}]"
    e = Engine(name)
    cls = make_class(KINDS[kind])

    def body(e):
        b, cap, cs, gs, (r, rs) = build_state(e, cls, N, alignment, False)
        o, s1, s2 = e.sym("fo"), e.sym("fs"), e.sym("fs2")
        cons = [o.e >= 0, s1.e >= 1, s2.e >= 1, o.e + s1.e + s2.e <= cap.e, o.e % alignment == 0]
        for s, en in cs:
            cons.append(z3.Or(s.e == en.e, en.e <= o.e, o.e + s1.e + s2.e <= s.e))
        e.assume(z3.And(cons))
        det = lambda m: {"op": ["coalesce", m.eval(o.e, model_completion=True).as_long(), m.eval(s1.e, model_completion=True).as_long(), m.eval(s2.e, model_completion=True).as_long(), order]}
        try:
            if order == 0:
                b.free(o, s1)
                b.free(o + s1, s2)
            else:
                b.free(o + s1, s2)
                b.free(o, s1)
            free_before = T(b.get_free())
            off = T(b.allocate(s1 + s2))
        except Exception as ex:  # noqa
            e.fail(f"raised {type(ex).__name__}", det)
            e.reach()
            return
        e.prove(T(b.capacity) == cap.e, "two adjacent freed regions serve one request of their total size without growth", det)
        e.prove(off <= o.e, "the merged space (or a lower one) is used", det)
        e.reach()

    e.explore(body)
    res = e.result()
    res["cfg"] = list(cfg)
    return res


HARNESS = {"allocate": h_allocate, "free": h_free, "grow": h_grow, "init": h_init, "rank": h_rank, "coalesce": h_coalesce}


def _dispatch(job):
    return job[0], HARNESS[job[0]](job[1])


# --------------------------------------------------------------------------
REPLAY_TEMPLATE = '''#!/usr/bin/env python
"""replay of a solver counterexample against the real allocator (exit 1 = property violated)"""
import sys
import numpy as np
from xobjects.context_cpu import BufferNumpy, BufferByteArray
CASE = {case}
KIND = dict(BufferNumpy=BufferNumpy, BufferByteArray=BufferByteArray)[CASE["kind"]]
cap, chunks, a, gs, op = CASE["cap"], CASE["chunks"], CASE["alignment"], CASE["grow_step"], CASE["op"]
sys.setrecursionlimit(900)  # the recursion budget the ranking obligation is stated for
# the pre-state is built with alignment 1 (packed carving; free() of whole carved pieces), the alignment under
# test is set afterwards: a defect that only shows for alignments > 1 must not disturb the construction
b = KIND(capacity=cap, default_alignment=1, grow_step=gs)
# reach the free list through the public API: carve the buffer with packed allocations, free the chunks
live = []
pos = 0
tofree = []
if CASE.get("split_frees") and cap > 0:
    # another legal history to the same pre-state: ONE region covering the buffer, released piece by piece (M11-C04:
    # state that counts requests instead of bytes).  The property is checked along the way: each release frees
    # exactly its bytes.
    o = b.allocate(cap, align=False); assert o == 0, o
    freed = 0
    for s, e in chunks:
        if s > pos: live.append((pos, s - pos))
        b.free(s, e - s); freed += e - s
        if b.get_free() != freed:
            print("VIOLATED: after releasing", [(x, y) for x, y in chunks if y <= e], "out of one region covering the buffer the free total is", b.get_free(), "not", freed, "| case", CASE); sys.exit(1)
        pos = e
    if cap > pos: live.append((pos, cap - pos))
else:
    for s, e in chunks:
        if s > pos:
            o = b.allocate(s - pos, align=False); assert o == pos, (o, pos); live.append((pos, s - pos))
        o = b.allocate(e - s, align=False); assert o == s, (o, s); tofree.append((s, e - s))
        pos = e
    if cap > pos:
        o = b.allocate(cap - pos, align=False); assert o == pos; live.append((pos, cap - pos))
    for o, n in tofree:
        b.free(o, n)
b.default_alignment = a
got = [(c.start, c.end) for c in b.chunks]
want = [(s, e) for s, e in chunks]
if [c for c in got if c[0] != c[1]] != [c for c in want if c[0] != c[1]]:
    print("UNREACHABLE pre-state: got", got, "wanted", want); sys.exit(2)
def setb(o, n, v):
    for k in range(o, o + n): b.buffer[k] = v
def getb(o, n):
    return bytes(bytearray(b.buffer[o:o + n])) if CASE["kind"] == "BufferByteArray" else b.buffer[o:o + n].tobytes()
pat = {{}}
for i, (o, n) in enumerate(live):
    v = (i * 37 + 11) % 120 + 1
    if n <= 100000: setb(o, n, v); pat[(o, n)] = v
free_before = sorted(got)
cap0 = b.capacity
def fail(msg):
    print("VIOLATED:", msg, "| case", CASE); sys.exit(1)
def first_fit(chunks, size, al):
    for s, e in chunks:
        o = (s + al - 1) // al * al
        if o + size <= e: return o
    return None
try:
    if op[0] == "allocate":
        size, use_align = op[1], op[2]
        al = a if use_align else 1
        off = b.allocate(size, align=use_align)
        if off % al: fail(f"offset {{off}} not aligned to {{al}}")
        if off < 0 or off + size > b.capacity: fail(f"region [{{off}},{{off+size}}) outside capacity {{b.capacity}}")
        if b.capacity < cap0: fail("capacity shrank")
        for o, n in live:
            if n and size and off < o + n and o < off + size: fail(f"region [{{off}},{{off+size}}) overlaps live [{{o}},{{o+n}})")
        ff = first_fit(free_before, size, al)
        if ff is not None and (off != ff or b.capacity != cap0): fail(f"first fit would place at {{ff}} without growth; got {{off}}, capacity {{cap0}}->{{b.capacity}}")
        padding = None
        grown = [(s, e) for s, e in free_before]
        if b.capacity > cap0:
            if grown and grown[-1][1] == cap0: grown[-1] = (grown[-1][0], b.capacity)
            else: grown.append((cap0, b.capacity))
        ff2 = first_fit(grown, size, al)
        if ff2 != off: fail(f"lowest fitting position of grown free list is {{ff2}}, got {{off}}")
        tot_before = sum(e - s for s, e in grown)
        st = [s for s, e in grown if s <= off <= e][0]
        if b.get_free() != tot_before - size - (off - st): fail(f"free total {{b.get_free()}} != {{tot_before}} - {{size}} - padding {{off-st}}")
    elif op[0] == "free":
        o, n = op[1], op[2]
        if (o, n) not in live and n > 0:
            # the freed region is a sub-range of a live one in the model: carve it exactly
            pass
        b.free(o, n)
        if b.get_free() != sum(e - s for s, e in free_before) + n: fail("free total wrong after free")
        cs = [(c.start, c.end) for c in b.chunks]
        for (s1, e1), (s2, e2) in zip(cs, cs[1:]):
            if not e1 < s2: fail(f"chunks not coalesced/sorted: {{cs}}")
    elif op[0] == "grow":
        b.grow(op[1])
        if b.capacity != cap0 + op[1]: fail("capacity after grow")
        def norm(iv):
            out = []
            for s, e in sorted((s, e) for s, e in iv if e > s):
                if out and s <= out[-1][1]: out[-1][1] = max(out[-1][1], e)
                else: out.append([s, e])
            return out
        if norm([(c.start, c.end) for c in b.chunks]) != norm(list(free_before) + [(cap0, cap0 + op[1])]):
            fail(f"free list after grow {{[(c.start, c.end) for c in b.chunks]}} is not the free list before {{list(free_before)}} plus the new area [{{cap0}},{{cap0 + op[1]}})")
    elif op[0] == "coalesce":
        o, s1, s2, order = op[1:]
        if order == 0: b.free(o, s1); b.free(o + s1, s2)
        else: b.free(o + s1, s2); b.free(o, s1)
        off = b.allocate(s1 + s2)
        if b.capacity != cap0: fail("adjacent freed regions did not serve a request of their total size without growth")
    elif op[0] == "init":
        pass
except SystemExit:
    raise
except BaseException as ex:
    fail(f"{{op[0]}} raised {{type(ex).__name__}}: {{str(ex)[:80]}}")
for (o, n), v in pat.items():
    if op[0] == "free" and o <= op[1] < o + n: continue
    if op[0] == "coalesce": continue
    if getb(o, n) != bytes([v]) * n: fail(f"bytes of live region [{{o}},{{o+n}}) changed")
print("property holds on this case")
sys.exit(0)
'''


def normalise_case(cfgname, cfg, cex):
    m = cex["model"]
    kind = cfg[1]
    N = cfg[2] if cfgname != "init" else 0
    chunks = [(m.get(f"s{i}", 0), m.get(f"e{i}", 0)) for i in range(N)]
    alignment = cfg[3] if cfgname != "init" else cfg[2]
    case = {
        "kind": kind,
        "cap": m.get("cap", 0),
        "chunks": chunks,
        "alignment": alignment,
        "grow_step": m.get("gs") if "gs" in m else None,
        "op": (cex.get("detail") or {}).get("op", ["init"]),
    }
    # live regions freed in the model must be whole live regions in the replay: make the free list
    # such that the freed region is exactly carved (the replay frees it as a sub-range, which the
    # allocator does not distinguish)
    return case


def signature(cfgname, cex, case):
    ob = cex["obligation"]
    op = case["op"][0]
    extra = ""
    if "raised" in ob:
        extra = ":" + ob.split("raised ")[-1]
        if op == "free" and not case["chunks"]:
            extra += ":empty-free-list"
    elif cfgname == "rank":
        extra = ":recursion-depth"
    else:
        extra = ":" + ob.split(":")[0][:60]
    return f"{cfgname}:{op}{extra}"


def main(pid):
    tr = tier()
    rep = Report(pid, "model_checking", tr, technique="symbolic execution of the real XBuffer.allocate/free/grow on z3 integer proxies: one inductive step from every free-list state satisfying the representation invariant (bounded list length)")
    Ns = range(0, 4) if tr == "quick" else range(0, 6)
    aligns = (1, 2, 4, 8, 16, 32, 64)
    K = 3 if tr == "quick" else 4
    kinds = list(KINDS)
    jobs = []
    for kind in kinds:
        for a in aligns:
            jobs.append(("init", (pid, kind, a)))
            for N in Ns:
                akinds = (True, False) if a > 1 else (True,)
                for ua in akinds:
                    for gsm in (False, True):
                        if kind != kinds[0] and tr == "quick" and (N > 2):
                            continue
                        jobs.append(("allocate", (pid, kind, N, a, ua, gsm, K)))
                        if pid == "C12":
                            jobs.append(("rank", (pid, kind, N, a, ua, gsm)))
                if kind != kinds[0] and tr == "quick" and N > 2:
                    continue
                jobs.append(("free", (pid, kind, N, a)))
                jobs.append(("grow", (pid, kind, N, a)))
                if pid == "C12" and N <= (2 if tr == "quick" else 4):
                    for order in (0, 1):
                        jobs.append(("coalesce", (pid, kind, N, a, order)))
    # heavier jobs first
    jobs.sort(key=lambda j: -(j[1][2] if isinstance(j[1][2], int) else 0))
    ok, secs = symx.lemma_and_mask()
    results = run_parallel(_dispatch, jobs)
    for (hname, cfg), (_, res) in zip(jobs, results):
        expect = ("end",)
        if hname == "rank":
            expect = ()
        rep.add_engine_result(res, expect_reach=expect)
        for cex in res["cexs"]:
            case = normalise_case(hname, cfg, cex)
            sig = signature(hname, cex, case)
            desc = f"{res['name']}: {cex['obligation']} with {json.dumps(case)}"
            rep.candidate(sig, desc, REPLAY_TEMPLATE.format(case=repr(case)), history_text=REPLAY_TEMPLATE.format(case=repr(dict(case, split_frees=True))))
    if not ok:
        rep.harness_error("lemma L1 (x & -2^k rewriting) not unsat")
    # the rank harness must reach its end in at least one configuration (vacuity guard for the group)
    if pid == "C12" and not any(r[1]["reach"].get("end") for r in results if r[0] == "rank"):
        rep.harness_error("rank harness never reached a growth round")
    for fn in (XBuffer.__init__, XBuffer.allocate, XBuffer.grow, XBuffer.free, XBuffer.get_free, xctx._align, Chunk.overlaps, Chunk.merge):
        rep.add_function(fn)
    for kname, k in KINDS.items():
        for meth in ("allocate", "free", "grow", "__init__"):
            if getattr(k, meth) is not getattr(XBuffer, meth):
                rep.notes.append(f"{kname}.{meth} overrides XBuffer.{meth}: the override is what was executed")
                rep.add_function(getattr(k, meth))
    rep.bounds = {
        "free_list_length_N": f"0..{max(Ns)} (enumerated)",
        "alignment": list(aligns),
        "growth_rounds_unwound": f"<= {K} (precondition size+alignment-1 <= {K}*grow_step; deeper recursion is covered only by the ranking obligation of C12)",
        "capacity/size/grow_step/grow amount/chunk bounds": "unbounded mathematical integers in [0, 2^62)",
        "buffer_kinds": kinds if tr != "quick" else f"{kinds[0]} fully, {kinds[1]} for N<=2",
        "outside_claim": ["free lists longer than N", "non-power-of-two alignments", "negative sizes", "histories are covered by induction over the invariant, not enumerated"],
    }
    rep.assumptions = [
        "representation invariant I: chunks sorted, 0<=s_i<=e_i<=cap, e_i<s_{i+1}; live regions inside [0,cap] and disjoint from non-empty chunks; established by __init__ (checked) and preserved by allocate/free/grow (checked)",
        "A1: capacities and sizes < 2^62",
        f"L1 bit-vector lemma (x & -2^k == x - x mod 2^k, k<=6) discharged this run: {ok} in {secs:.2f}s",
        "storage primitives (_new_buffer, copy_to_native) are recording stubs here; their byte semantics is the subject of C13",
        "a live region passed to free is disjoint from the free list and from other live regions (caller contract)",
    ]
    rep.stubs = ["S8 (L1)", "S9 (storage primitives recorded, not executed)"]
    rep.extra["lemma_L1_unsat"] = ok
    return rep.finish()
