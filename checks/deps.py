"""C14 -- every class API emitted once, after its dependencies; cycles are an error.

The real `sort_classes` / `topological_sort` / `sources_from_classes` run on
abstract class objects whose dependency edges are solver variables
(e_ij in {0: none, 1: inner type, 2: declared dependency}); each branch the
code takes on an edge is a `decide`, so one feasible path = one dependency
graph restricted to the edges the code looked at.  This is *bounded exhaustive
path enumeration*: the solver only prunes and supplies models -- the weakest
use of the technique (DESIGN.md 5/C14), exhaustive inside the bound.

Bounds: N <= 3 classes (quick) / 4 (thorough); enumerated root lists; classes
with and without an API.  A counterexample is replayed with real xobjects
Struct classes and a cffi build.
"""
import itertools
import json

import z3

from vx import symx
from vx.symx import Engine, SymInt
from vx.report import Report, run_parallel, tier, seed

import xobjects.context as xctx


def make_classes(e, N, api_mask, kinds):
    edge = {}
    for i in range(N):
        for j in range(N):
            if i == j and not kinds.get("self_loops"):
                continue
            edge[(i, j)] = e.sym(f"e{i}{j}", 0, kinds["max_kind"])
    seen = {}

    def kind(i, j):
        if (i, j) not in edge:
            return 0
        if (i, j) in seen:
            return seen[(i, j)]
        v = edge[(i, j)]
        k = 0
        for cand in range(1, kinds["max_kind"] + 1):
            if e.decide(v.e == cand):
                k = cand
                break
        if k == 0:
            e.assume(v.e == 0)
        seen[(i, j)] = k
        return k

    class Base:
        def __init__(self, i):
            self.i = i
            self.__name__ = f"K{i}"
            self._extra_c_sources = []

        def _get_inner_types(self):
            return [classes[j] for j in range(N) if kind(self.i, j) == 1]

        @property
        def _depends_on(self):
            return [classes[j] for j in range(N) if kind(self.i, j) == 2]

        def __repr__(self):
            return self.__name__

    class WithApi(Base):
        def _gen_c_api(self):
            return f"/* api of K{self.i} */"

    classes = [(WithApi if api_mask[i] else Base)(i) for i in range(N)]
    if kinds.get("shadow") is not None:
        # a second class with the NAME of K_shadow (an override passed later in the list: "the last one
        # is used") with its own solver-variable edges, stored as row N of the edge matrix
        sh = kinds["shadow"]
        for j in range(N):
            if j != sh:
                edge[(N, j)] = e.sym(f"e{N}{j}", 0, kinds["max_kind"])
        shadow = WithApi(N)
        shadow.__name__ = f"K{sh}"
        shadow.is_shadow = True
        classes.append(shadow)
    return classes, seen, kind


def harness(cfg):
    N, roots, api_mask, kinds = cfg
    name = f"sort_classes[N={N},roots={roots},api={''.join(map(str, api_mask))},kinds={kinds['max_kind']}{'s' if kinds.get('self_loops') else ''}{',override of K%d' % kinds['shadow'] if kinds.get('shadow') is not None else ''}]"
    e = Engine(name, max_paths=200000, max_decisions=2000, max_cex=6)

    def body(e):
        classes, seen, kind = make_classes(e, N, api_mask, kinds)
        rootlist = [classes[r] for r in roots]
        sh = kinds.get("shadow")
        if sh is not None:
            rootlist.append(classes[N])
        exc = None
        res = None
        try:
            res = xctx.sort_classes(list(rootlist))
        except ValueError as ex:
            exc = ex
        except Exception as ex:  # noqa
            e.fail(f"sort_classes raised {type(ex).__name__}", lambda m: graph_of(m, N, kinds, roots, api_mask))
            e.reach()
            return
        # the graph as far as the code (and we) looked: complete it for the reachable part
        reach = set(roots)
        frontier = list(roots)
        adj = {}
        row = lambda i: N if (sh is not None and i == sh) else i  # last-wins: the override's edges count
        if sh is not None:
            reach.add(sh)
            frontier.append(sh)
        while frontier:
            i = frontier.pop()
            if i in adj:
                continue
            adj[i] = [j for j in range(N) if kind(row(i), j) in (1, 2)]
            if sh is not None and i == sh and sh in roots:
                # the overridden class was scanned too (it is in the list): what it depends on is in
                # the build as well, although its own edges are replaced by the override's
                for j in range(N):
                    if kind(sh, j) in (1, 2) and j not in reach:
                        reach.add(j)
                        frontier.append(j)
            for j in adj[i]:
                if j not in reach:
                    reach.add(j)
                    frontier.append(j)
        cyclic = has_cycle(adj)
        det = lambda m: graph_of(m, N, kinds, roots, api_mask)
        if any(adj.values()):  # a graph with at least one edge is a non-trivial case; distinct by its decided edges
            import hashlib

            e.stats.hashes.add(hashlib.md5((name + json.dumps(sorted((k, v) for k, v in seen.items()))).encode()).hexdigest())
            if len(e.samples) < 2:
                e.samples.append({"harness": name, "graph_edges(i,j):kind": {f"{i}>{j}": k for (i, j), k in seen.items() if k}, "cyclic": cyclic, "result": None if exc is not None else [c.__name__ for c in res], "raised": None if exc is None else str(exc)})
        if cyclic:
            e.prove(z3.BoolVal(exc is not None), "a dependency cycle is reported as an error", det)
        else:
            e.prove(z3.BoolVal(exc is None), "an acyclic dependency graph is sorted without error", det)
            if exc is None:
                names = [c.__name__ for c in res]
                want = sorted(f"K{i}" for i in reach if api_mask[i])
                e.prove(z3.BoolVal(len(names) == len(set(names))), "every class API is emitted exactly once (no duplicates)", det)
                if sh is None:
                    e.prove(z3.BoolVal(sorted(set(names)) == want), "exactly the reachable classes that have an API are emitted", det)
                else:
                    e.prove(z3.BoolVal(set(want) <= set(names)), "with a same-named override later in the list: everything the override depends on is emitted", det)
                    e.prove(z3.BoolVal(any(c is classes[N] for c in res) and not any(c is classes[sh] for c in res)), "with a same-named override later in the list: the last class of that name is the one emitted", det)
                pos = {n: k for k, n in enumerate(names)}
                ok = True
                for i in reach:
                    for j in adj[i]:
                        if api_mask[i] and api_mask[j] and f"K{i}" in pos and f"K{j}" in pos and not pos[f"K{j}"] < pos[f"K{i}"]:
                            ok = False
                e.prove(z3.BoolVal(ok), "every dependency is emitted before its dependant", det)
                srcs = xctx.sources_from_classes(res)
                e.prove(z3.BoolVal(len(srcs) == len(res) and len(set(srcs)) == len(srcs)), "one source block per class", det)
        e.reach()

    e.explore(body)
    r = e.result()
    r["cfg"] = [N, list(roots), list(api_mask), kinds]
    return r


def has_cycle(adj):
    color = {}

    def dfs(u):
        color[u] = 1
        for v in adj.get(u, []):
            if color.get(v) == 1:
                return True
            if color.get(v) is None and dfs(v):
                return True
        color[u] = 2
        return False

    return any(color.get(u) is None and dfs(u) for u in list(adj))


def graph_of(m, N, kinds, roots, api_mask):
    g = {}
    for i in range(N):
        for j in range(N):
            v = m.eval(z3.Int(f"e{i}{j}"), model_completion=True).as_long() if (i != j or kinds.get("self_loops")) else 0
            if v:
                g[f"{i}>{j}"] = v
    out = {"N": N, "edges": g, "roots": list(roots), "api": list(api_mask)}
    if kinds.get("shadow") is not None:
        out["shadow"] = kinds["shadow"]
        out["shadow_edges"] = {str(j): m.eval(z3.Int(f"e{N}{j}"), model_completion=True).as_long() for j in range(N) if j != kinds["shadow"]}
    return out


REPLAY = '''#!/usr/bin/env python
"""replay of a dependency graph with REAL xobjects classes: sort_classes + cffi build (exit 1 = property violated)"""
import sys
import xobjects as xo
from xobjects.context import sort_classes
CASE = {case}
N, edges, roots, api = CASE["N"], CASE["edges"], CASE["roots"], CASE["api"]
adj = {{i: [] for i in range(N)}}
for k, v in edges.items():
    i, j = map(int, k.split(">")); adj[i].append((j, v))
def cyclic():
    color = {{}}
    def dfs(u):
        color[u] = 1
        for v, _ in adj[u]:
            if color.get(v) == 1 or (color.get(v) is None and dfs(v)): return True
        color[u] = 2; return False
    reach = set(); st = list(roots)
    while st:
        u = st.pop()
        if u in reach: continue
        reach.add(u); st += [v for v, _ in adj[u]]
    return any(color.get(u) is None and dfs(u) for u in reach), reach
cyc, reach = cyclic()
classes = {{}}
class NoApi:  # a dependency without a C API (like a scalar type)
    def __init__(self, i): self.__name__ = f"K{{i}}"; self.i = i
    def _get_inner_types(self): return [classes[j] for j, k in adj[self.i] if k == 1]
    @property
    def _depends_on(self): return [classes[j] for j, k in adj[self.i] if k == 2]
def build(i, stack=()):
    if i in classes: return classes[i]
    if not api[i]:
        classes[i] = NoApi(i); return classes[i]
    if cyc:
        # cycles cannot be declared with plain fields: abstract stand-ins with the real sorter
        class C:
            pass
        c = C(); c.__name__ = f"K{{i}}"; c.i = i
        c._get_inner_types = lambda i=i: [build(j) for j, k in adj[i] if k == 1]
        c._depends_on = []
        c._gen_c_api = lambda: ""
        classes[i] = c
        return c
    fields = {{}}
    deps = []
    for j, k in adj[i]:
        t = build(j)
        if k == 1 and api[j]: fields[f"f{{j}}"] = t
        else: deps.append(t)
    fields["_depends_on"] = [d for d in deps if hasattr(d, "_gen_c_api")]
    classes[i] = type(f"K{{i}}", (xo.Struct,), fields)
    return classes[i]
for i in range(N): build(i)
SH = CASE.get("shadow")
extra_roots = []
if SH is not None:
    # the override: same name as K_SH, its own dependencies
    sadj = [(int(j), k) for j, k in CASE["shadow_edges"].items() if k]
    fields = {{}}; deps = []
    for j, k in sadj:
        if k == 1 and api[j]: fields[f"g{{j}}"] = classes[j]
        else: deps.append(classes[j])
    fields["_depends_on"] = [d for d in deps if hasattr(d, "_gen_c_api")]
    old = classes[SH]
    new = type(f"K{{SH}}", (xo.Struct,), fields)
    extra_roots = [new]
    adj_last = dict(adj); adj_last[SH] = sadj
def fail(msg): print("VIOLATED:", msg, "| case", CASE); sys.exit(1)
if SH is not None:
    # nodes in the build: reachable through the last-wins edges, plus what the overridden class pulled in
    disc = set(); st = list(roots) + [SH]
    while st:
        u = st.pop()
        if u in disc: continue
        disc.add(u); st += [v for v, _ in adj_last[u]]
        if u == SH and SH in roots: st += [v for v, _ in adj[SH]]
    color = {{}}
    def dfs2(u):
        color[u] = 1
        for v, _ in adj_last[u]:
            if color.get(v) == 1 or (color.get(v) is None and dfs2(v)): return True
        color[u] = 2; return False
    cyc2 = any(color.get(u) is None and dfs2(u) for u in disc)
    try:
        res = sort_classes([classes[r] for r in roots] + extra_roots)
    except ValueError as ex:
        if not cyc2: fail(f"acyclic graph rejected: {{ex}}")
        print("cycle reported as error"); sys.exit(0)
    if cyc2: fail("dependency cycle not reported")
    names = [c.__name__ for c in res]
    if len(names) != len(set(names)): fail(f"a class is emitted more than once: {{names}}")
    if not any(c is extra_roots[0] for c in res): fail("the last class of the duplicated name is not the one emitted")
    need = set(); st = [SH] + list(roots)
    while st:
        u = st.pop()
        if u in need: continue
        need.add(u); st += [v for v, _ in adj_last[u]]
    missing = [f"K{{i}}" for i in need if api[i] and f"K{{i}}" not in names]
    if missing: fail(f"dependencies of the override are not emitted: {{missing}} (emitted {{names}})")
    try:
        ctx = xo.ContextCpu(); ctx.add_kernels(kernels={{}}, extra_classes=[classes[r] for r in roots] + extra_roots)
    except Exception as ex:
        fail(f"the emitted source does not build: {{type(ex).__name__}}: {{str(ex)[:200]}}")
    print("property holds on this case"); sys.exit(0)
try:
    res = sort_classes([classes[r] for r in roots])
except ValueError as ex:
    if not cyc: fail(f"acyclic graph rejected: {{ex}}")
    print("cycle reported as error"); sys.exit(0)
if cyc: fail("dependency cycle not reported")
names = [c.__name__ for c in res]
if len(names) != len(set(names)): fail(f"a class is emitted more than once: {{names}}")
want = sorted(f"K{{i}}" for i in reach if api[i])
if sorted(names) != want: fail(f"emitted {{names}}, expected the reachable API classes {{want}}")
pos = {{n: k for k, n in enumerate(names)}}
for i in reach:
    for j, _ in adj[i]:
        if api[i] and api[j] and not pos[f"K{{j}}"] < pos[f"K{{i}}"]: fail(f"K{{j}} emitted after its dependant K{{i}}: {{names}}")
if all(api[i] for i in reach):
    try:
        ctx = xo.ContextCpu(); ctx.add_kernels(kernels={{}}, extra_classes=[classes[r] for r in roots])
    except Exception as ex:
        fail(f"the emitted source does not build: {{type(ex).__name__}}: {{str(ex)[:200]}}")
print("property holds on this case"); sys.exit(0)
'''


def _same_api(a, b):
    try:
        return a._gen_c_decl({}) == b._gen_c_decl({}) and a._gen_c_api() == b._gen_c_api()
    except Exception:  # noqa
        return False


def real_types(tr):
    """the catalogue's REAL classes: the dependency closure (by identity, through _get_inner_types / _depends_on)
    against sort_classes; two distinct classes that end up with one name are what the by-name bookkeeping of
    sort_classes / the include guards cannot tell apart"""
    from vx import typegen as tg

    out = dict(types=0, failures=[])
    for label, ast in tg.catalogue(tr, seed()):
        cls = tg.build(ast)
        if not hasattr(cls, "_gen_c_api"):
            continue
        out["types"] += 1
        clos, st = [], [cls]
        while st:
            c = st.pop()
            if any(c is x for x in clos):
                continue
            clos.append(c)
            inner = list(c._get_inner_types()) if hasattr(c, "_get_inner_types") else []
            inner += list(getattr(c, "_depends_on", []))
            st += inner
        need = [c for c in clos if hasattr(c, "_gen_c_api")]
        try:
            res = xctx.sort_classes([cls])
        except Exception as ex:  # noqa
            out["failures"].append((label, ast, f"sort_classes raised {type(ex).__name__}: {str(ex)[:80]}"))
            continue
        names = [c.__name__ for c in res]
        msg = None
        if len(names) != len(set(names)):
            msg = f"a class is emitted twice: {names}"
        else:
            for c in need:
                # two class objects for one type expression (e.g. String[:] written with and without an explicit
                # axis order) carry one name and one C API: they are one class for the generated source
                twins = [x for x in need if x.__name__ == c.__name__ and (x is c or _same_api(x, c))]
                k = sum(1 for r in res if any(r is x for x in twins))
                if k != 1:
                    msg = f"class {c.__name__} (one of {len(need)} distinct classes in the closure) is emitted {k} times; emitted: {names}"
                    break
        if msg is None:
            pos = {id(c): k for k, c in enumerate(res)}
            for c in need:
                inner = list(c._get_inner_types()) if hasattr(c, "_get_inner_types") else []
                for d in inner + list(getattr(c, "_depends_on", [])):
                    if hasattr(d, "_gen_c_api") and id(d) in pos and id(c) in pos and not pos[id(d)] < pos[id(c)]:
                        msg = f"{d.__name__} is emitted after its dependant {c.__name__}"
        if msg:
            out["failures"].append((label, ast, msg))
    return out


HYB_SRC = '''
def make():
    import xobjects as xo

    class Rng(xo.HybridClass):
        _xofields = {"s": xo.Int64}

    class Kick(xo.HybridClass):
        _xofields = {"k": xo.Float64}
        _depends_on = [Rng]  # a dependency declared as a hybrid class
        _extra_c_sources = ["/*gpufun*/ int64_t Kick_seed(RngData r){ return RngData_get_s(r); }"]

    class Line(xo.HybridClass):
        _xofields = {"e": Kick._XoStruct[:], "n": xo.Int32}
        _depends_on = [Kick]

    class Mon(xo.HybridClass):
        _xofields = {"q": xo.Float64[:]}
        _depends_on = [Rng._XoStruct]  # ... and as the struct class

    # a union whose member list is a LIST object and which declares a dependency of its own; a struct holding it
    class Tab(xo.Struct):
        t = xo.Float64[:]

    class ShA(xo.Struct):
        x = xo.Float64

    class ShB(xo.Struct):
        y = xo.Int64

    class Shape(xo.UnionRef):
        _reftypes = [ShA, ShB]
        _depends_on = [Tab]

    class Scene(xo.Struct):
        s = Shape
        n = xo.Int32

    # a plain struct that declares a hybrid class as its dependency
    class Probe(xo.Struct):
        p = xo.Float64
        _depends_on = [Rng]
        _extra_c_sources = ["/*gpufun*/ int64_t Probe_seed(RngData r){ return RngData_get_s(r); }"]

    # named array classes derived from an array class OBJECT that is also used (and built) on its own (M11-C14: what is
    # kept on a class from an earlier build must not be found through the MRO by a class derived from it)
    class Pnt(xo.Struct):
        x = xo.Float64
        y = xo.Float64

    P3 = Pnt[3]

    class Tri(P3):
        pass

    class Mesh(Tri[:]):
        pass

    class Cell(xo.Struct):
        c = P3
        k = xo.Int32

    # two classes whose names differ only in letter case (C identifiers are case sensitive; M12-C14)
    class CELL(xo.Struct):
        cc = Cell[:]
        n = xo.Int32

    return dict(Rng=Rng, Kick=Kick, Line=Line, Mon=Mon, Tab=Tab, Shape=Shape, Scene=Scene, Probe=Probe, Pnt=Pnt, P3=P3, Tri=Tri, Mesh=Mesh, Cell=Cell, CELL=CELL)


def xs(c):
    return getattr(c, "_XoStruct", c)


def judge(roots):
    """roots: hybrid classes and/or struct classes, as a user passes them to add_kernels(extra_classes=...)"""
    import xobjects as xo
    from xobjects.context import sort_classes

    clos, st = [], [xs(r) for r in roots]
    while st:
        c = st.pop()
        if any(c is x for x in clos):
            continue
        clos.append(c)
        st += [xs(d) for d in (list(c._get_inner_types()) if hasattr(c, "_get_inner_types") else [])]
        st += [xs(d) for d in getattr(c, "_depends_on", [])]
    need = [c for c in clos if hasattr(c, "_gen_c_api")]
    inner0 = [(c, list(c._get_inner_types()) if hasattr(c, "_get_inner_types") else [], list(getattr(c, "_depends_on", []))) for c in clos]
    first = sort_classes(list(roots))
    res = sort_classes(list(roots))  # sorting is repeatable: a second build sees the same classes (M10-C14)
    names = [c.__name__ for c in res]
    if [id(c) for c in first] != [id(c) for c in res]:
        return f"sorting {[r.__name__ for r in roots]} twice gives {[c.__name__ for c in first]} and then {names}"
    for c, inn, dep in inner0:
        now = list(c._get_inner_types()) if hasattr(c, "_get_inner_types") else []
        if [id(x) for x in now] != [id(x) for x in inn] or [id(x) for x in getattr(c, "_depends_on", [])] != [id(x) for x in dep]:
            return f"sort_classes changed the inner types / declared dependencies of {c.__name__}: {[x.__name__ for x in inn]} -> {[x.__name__ for x in now]}"
    for c in need:
        k = sum(1 for r in res if r is c)
        if k != 1:
            return f"class {c.__name__} needed by {[r.__name__ for r in roots]} is emitted {k} times; emitted: {names}"
    pos = {id(c): i for i, c in enumerate(res)}
    for c in need:
        for d in [xs(d) for d in (list(c._get_inner_types()) if hasattr(c, "_get_inner_types") else []) + list(getattr(c, "_depends_on", []))]:
            if hasattr(d, "_gen_c_api") and id(d) in pos and not pos[id(d)] < pos[id(c)]:
                return f"{d.__name__} is emitted after its dependant {c.__name__}"
    # the emitted TEXT, preprocessed: the handle typedef of every needed class exactly once
    import re
    from xobjects.context import sources_from_classes

    text = chr(10).join(x if isinstance(x, str) else str(getattr(x, "source", x)) for x in sources_from_classes(res))
    import subprocess

    pp = subprocess.run(["gcc", "-E", "-P", "-x", "c", "-"], input=text, capture_output=True, text=True)
    if pp.returncode == 0:
        # what the compiler sees after the include guards: the handle type of every needed class is defined exactly once
        names = re.findall("typedef[^;]*?([A-Za-z0-9_]+)[ ]*;", pp.stdout)
        for c in need:
            k = names.count(c.__name__)
            if k != 1:
                return f"the handle type of {c.__name__} needed by {[r.__name__ for r in roots]} is defined {k} times in the emitted source after preprocessing (typedefs: {names})"
    for attempt in ("first", "second"):
        try:
            xo.ContextCpu().add_kernels(kernels={}, extra_classes=list(roots))
        except Exception as ex:  # noqa
            return f"the source emitted for {[r.__name__ for r in roots]} does not build ({attempt} build): {type(ex).__name__}: {str(ex)[:120]}"
    return None


def judge_seq(cl, names, as_struct):
    """names: class names; "|" separates builds made one after the other in the same process"""
    groups, g = [], []
    for n in list(names) + ["|"]:
        if n == "|":
            if g:
                groups.append(g)
            g = []
        else:
            g.append(n)
    for g in groups:
        msg = judge([getattr(cl[n], "_XoStruct", cl[n]) if as_struct else cl[n] for n in g])
        if msg:
            return msg + (f" [build of {g} in the sequence {list(names)}]" if len(groups) > 1 else "")
    return None
'''
exec(HYB_SRC)

HYB_ROOTS = [("Kick",), ("Line",), ("Mon",), ("Line", "Mon"), ("Rng", "Kick"), ("Mon", "Line", "Rng"), ("Scene",), ("Shape",), ("Scene", "Line"), ("Probe",), ("Probe", "Scene"), ("P3", "|", "Tri"), ("Cell", "|", "Mesh"), ("Tri", "|", "P3", "Mesh"), ("Mesh", "P3"), ("CELL",), ("Mesh", "CELL")]

REPLAY_HYB = '''#!/usr/bin/env python
"""replay: hybrid classes with declared dependencies against sort_classes + cffi build (exit 1 = violated)"""
import sys
{src}
cl = make()
msg = judge_seq(cl, {names!r}, {as_struct!r})
if msg:
    print("VIOLATED:", msg); sys.exit(1)
print("property holds on this case"); sys.exit(0)
'''


def _hyb_case(arg):
    names, as_struct = arg
    cl = make()
    try:
        return judge_seq(cl, names, as_struct)
    except Exception as ex:  # noqa
        return f"sort_classes raised {type(ex).__name__}: {str(ex)[:100]}"


REPLAY_REAL = '''#!/usr/bin/env python
"""replay: dependency closure of a real catalogue type against sort_classes + cffi build (exit 1 = violated)"""
import os, sys
if not sys.executable.startswith("/verif/.venv"):
    os.execv("/verif/.venv/bin/python", ["/verif/.venv/bin/python"] + sys.argv)
sys.path.insert(0, "/verif")
import xobjects as xo
from xobjects.context import sort_classes
from vx import typegen as tg
AST = {ast}
cls = tg.build(AST)
clos, st = [], [cls]
while st:
    c = st.pop()
    if any(c is x for x in clos): continue
    clos.append(c)
    st += list(c._get_inner_types()) if hasattr(c, "_get_inner_types") else []
    st += list(getattr(c, "_depends_on", []))
need = [c for c in clos if hasattr(c, "_gen_c_api")]
res = sort_classes([cls])
def same_api(a, b):
    try:
        return a._gen_c_decl(dict()) == b._gen_c_decl(dict()) and a._gen_c_api() == b._gen_c_api()
    except Exception:
        return False
bad = [c.__name__ for c in need if sum(1 for r in res if any(r is x for x in need if x.__name__ == c.__name__ and (x is c or same_api(x, c)))) != 1]
if bad:
    print("VIOLATED: classes of the closure not emitted exactly once:", bad, "emitted:", [c.__name__ for c in res]); sys.exit(1)
try:
    xo.ContextCpu().add_kernels(kernels={{}}, extra_classes=[cls])
except Exception as ex:
    print("VIOLATED: the emitted source does not build:", type(ex).__name__, str(ex)[:200]); sys.exit(1)
print("property holds on this case"); sys.exit(0)
'''


def main(pid):
    tr = tier()
    rep = Report(pid, "exploration", tr, technique="symbolic execution of the real sort_classes/topological_sort on abstract classes with solver-variable dependency edges: bounded EXHAUSTIVE path enumeration (the solver prunes infeasible paths and supplies models; weakest use of the technique)")
    jobs = []
    if tr == "quick":
        N = 3
        rootsets = [(0,), (0, 1), (1, 0), (2, 1, 0), (0, 2)]
        for roots in rootsets:
            jobs.append((N, roots, (1, 1, 1), {"max_kind": 1}))
        jobs.append((N, (0,), (1, 1, 1), {"max_kind": 2}))
        jobs.append((N, (0,), (1, 0, 1), {"max_kind": 1}))
        jobs.append((N, (0, 1), (1, 1, 0), {"max_kind": 1}))
        jobs.append((N, (0,), (1, 1, 1), {"max_kind": 1, "self_loops": True}))
        jobs.append((2, (0,), (1, 1), {"max_kind": 2, "self_loops": True}))
        jobs.append((2, (1, 0), (1, 1), {"max_kind": 2}))
        jobs.append((3, (0,), (1, 1, 1), {"max_kind": 1, "shadow": 0}))
        jobs.append((3, (0, 1), (1, 1, 1), {"max_kind": 1, "shadow": 1}))
    else:
        jobs.append((3, (0,), (1, 1, 1), {"max_kind": 2, "shadow": 0}))
        jobs.append((3, (0, 1), (1, 1, 1), {"max_kind": 2, "shadow": 1}))
        jobs.append((3, (1, 0), (1, 1, 1), {"max_kind": 1, "shadow": 0}))
        jobs.append((4, (0,), (1, 1, 1, 1), {"max_kind": 1, "shadow": 0}))
        for N in (2, 3):
            for r in range(1, N + 1):
                for roots in itertools.permutations(range(N), r):
                    for api in itertools.product((0, 1), repeat=N):
                        if not api[roots[0]]:
                            continue
                        jobs.append((N, roots, api, {"max_kind": 2, "self_loops": N < 3}))
        N = 4
        for roots in [(0,), (0, 1), (3, 0), (1, 2, 0), (3, 2, 1, 0)]:
            jobs.append((N, roots, (1, 1, 1, 1), {"max_kind": 1}))
        jobs.append((N, (0,), (1, 0, 1, 1), {"max_kind": 1}))
        jobs.append((N, (0,), (1, 1, 0, 1), {"max_kind": 1}))
    results = run_parallel(harness, jobs)
    graphs = 0
    for cfg, res in zip(jobs, results):
        rep.add_engine_result(res)
        graphs += res["paths"]
        for cex in res["cexs"]:
            case = cex.get("detail") or {}
            sig = "sort:" + cex["obligation"][:60]
            rep.candidate(sig, f"{res['name']}: {cex['obligation']} for graph {json.dumps(case)}", REPLAY.format(case=repr(case)))
    rt = real_types(tr)
    rep.extra["real_catalogue_types_checked"] = rt["types"]
    for label, ast, msg in rt["failures"]:
        rep.candidate("sort-real:" + msg.split(":")[0][:60].replace(label, ""), f"real classes of {label}: {msg} (concrete observation on the catalogue)", REPLAY_REAL.format(ast=repr(ast)))
    # hybrid classes: dependencies declared as hybrid classes / struct classes, roots given either way (concrete
    # observation with a cffi build per case)
    hjobs = [(names, as_struct) for names in HYB_ROOTS for as_struct in (True, False)]
    hres = run_parallel(_hyb_case, hjobs)
    for (names, as_struct), msg in zip(hjobs, hres):
        if msg:
            sel = "getattr(cl[n], \"_XoStruct\", cl[n])" if as_struct else "cl[n]"
            rep.candidate("sort-hybrid:" + ("struct-roots" if as_struct else "hybrid-roots") + ":" + msg.split(" needed by")[0][:50], f"hybrid classes {names} given as {'struct' if as_struct else 'hybrid'} classes: {msg} (concrete observation)", REPLAY_HYB.format(src=HYB_SRC, as_struct=as_struct, names=tuple(names)))
    rep.validated += len(hjobs)
    rep.extra["hybrid_dependency_cases"] = len(hjobs)
    rep.extra["graphs_explored"] = graphs
    rep.extra["exhaustive"] = True
    rep.extra["rule"] = "one evaluation = one obligation about one dependency graph (one feasible path of the real sort_classes over solver-variable edges); all graphs inside the bound are enumerated; non-trivial/distinct counted by md5 of (configuration, obligation, path)"
    for fn in (xctx.sort_classes, xctx.topological_sort, xctx.sources_from_classes):
        rep.add_function(fn)
    rep.bounds = {
        "classes": "<= 3 (quick) / <= 4 (thorough)",
        "edges": "every (i,j): none / inner type / declared dependency (solver variables, each branched on)",
        "roots": "enumerated root lists and orders",
        "classes without API": "enumerated masks",
        "outside_claim": ["larger graphs", "that the emitted source compiles is only checked in the replay of a counterexample (cffi build)", "name clashes between distinct classes (A2)"],
    }
    rep.assumptions = ["abstract classes expose __name__, _get_inner_types, _depends_on, _gen_c_api exactly as sort_classes uses them", "A2: distinct classes have distinct names"]
    # md5-based distinctness is per obligation; count graphs as the distinct non-trivial cases
    r = rep.finish()
    return r
