"""C13 (partial) -- CPU buffer copy primitives move exactly the requested bytes.

The real methods of `BufferNumpy` and `BufferByteArray` whose body is slice
arithmetic (`update_from_native`, `copy_to_native`, `to_native`,
`update_from_buffer`, `to_bytearray`, `to_pointer_arg`) and
`XBuffer.update_from_xbuffer` run with `self.buffer` (and the source) replaced
by `SymBytes`: a model of `bytearray` / 1-D int8 `ndarray` whose length is a
solver variable and whose content is an uninterpreted function of the position
(model S6: slice clamping, length change of bytearray slice assignment,
broadcast/shape error of ndarray slice assignment, views alias, copies do not).
Capacity, offset, source offset and length are symbolic; a Skolem position p
states "post[p] = src[so+p-off] inside the range, pre[p] outside".

NOT covered (stated in DESIGN.md 5/C13, 6): update_from_nplike, to_nplike /
to_nparray, scalar.py helpers -- dtype conversion, flatten, view and
np.frombuffer are NumPy C code; they are exercised concretely by the write-side
checks' validation runs only.
"""
import itertools
import json

import numpy as np
import z3

from vx import symx
from vx.symx import Engine, SymInt, T, mk
from vx.report import Report, run_parallel, tier, seed

import xobjects.context_cpu as xcpu
import xobjects.context as xctx
from xobjects.context_cpu import BufferNumpy, BufferByteArray

BIG = 2**62
_fresh = itertools.count()


def clamp_slice(a, b, n):
    """Python slice.indices for step 1 (a, b may be None / negative), as z3 terms"""
    n = T(n)

    def norm(x, default):
        if x is None:
            return default
        x = T(x)
        x = z3.If(x < 0, x + n, x)
        return z3.If(x < 0, 0, z3.If(x > n, n, x))

    start = norm(a, z3.IntVal(0))
    stop = norm(b, n)
    ln = z3.If(stop > start, stop - start, 0)
    return z3.simplify(start), z3.simplify(ln)


class SymBytes:
    """kind 'bytearray' | 'ndarray'.  A *root* owns (length, content); a *view* (ndarray slices)
    refers to (parent, start, length) and reads/writes through."""

    def __init__(self, kind, length=None, content=None, parent=None, start=None, name=None):
        self.kind = kind
        self.parent = parent
        self.start = start
        self.name = name or f"m{next(_fresh)}"
        if parent is None:
            self.length = T(length)
            if content is None:
                f = z3.Function(f"byte_{self.name}", z3.IntSort(), z3.IntSort())
                content = lambda p, f=f: f(p)
            self.content = content
        else:
            self.length = T(length)
        self.writes = 0

    # -- reading ------------------------------------------------------------
    def at(self, p):
        if self.parent is not None:
            return self.parent.at(self.start + p)
        return self.content(p)

    def snapshot(self):
        """immutable content function of the current state (position relative to this object)"""
        if self.parent is None:
            c = self.content
            return lambda p: c(p)
        root, off = self._root()
        c = root.content
        return lambda p: c(off + p)

    def _root(self):
        off = z3.IntVal(0)
        x = self
        while x.parent is not None:
            off = off + x.start
            x = x.parent
        return x, off

    def __len__(self):
        raise TypeError("len() of a symbolic byte container: use the patched len")

    def sym_len(self):
        return mk(self.length)

    @property
    def nbytes(self):
        return mk(self.length)

    def __getitem__(self, key):
        if not isinstance(key, slice) or key.step not in (None, 1):
            raise symx.Abort()
        start, ln = clamp_slice(key.start, key.stop, self.length)
        if self.kind == "ndarray":
            return SymBytes("ndarray", length=ln, parent=self, start=start)
        snap = self.snapshot()
        return SymBytes("bytearray", length=ln, content=lambda p: snap(start + p))

    def copy(self):
        snap = self.snapshot()
        return SymBytes(self.kind, length=self.length, content=snap)

    # -- writing ------------------------------------------------------------
    def __setitem__(self, key, value):
        if not isinstance(key, slice) or key.step not in (None, 1):
            raise symx.Abort()
        e = symx.engine()
        start, ln = clamp_slice(key.start, key.stop, self.length)
        if isinstance(value, SymBytes):
            vlen = value.length
            vsnap = value.snapshot()
        else:
            data = bytes(value)
            vlen = z3.IntVal(len(data))
            vsnap = lambda p, data=data: _bytes_fun(data, p)
        root, off = self._root()
        old = root.content
        s0 = off + start
        self_w = self
        if self.kind == "ndarray":
            # NumPy: shapes must match, or the value has length 1 (broadcast)
            if e.decide(vlen == ln):
                root.content = lambda p: z3.If(z3.And(s0 <= p, p < s0 + ln), vsnap(p - s0), old(p))
            elif e.decide(vlen == 1):
                root.content = lambda p: z3.If(z3.And(s0 <= p, p < s0 + ln), vsnap(z3.IntVal(0)), old(p))
            else:
                raise ValueError("could not broadcast input array into shape")
        else:
            if self.parent is not None:
                raise symx.Abort()
            # bytearray: the slice is replaced, the container may change its length
            root.content = lambda p: z3.If(p < s0, old(p), z3.If(p < s0 + vlen, vsnap(p - s0), old(p - vlen + ln)))
            root.length = z3.simplify(root.length - ln + vlen)
        root.writes += 1


def _bytes_fun(data, p):
    r = z3.IntVal(0)
    for k in reversed(range(len(data))):
        r = z3.If(p == k, data[k], r)
    return r


def sym_len(x):
    if isinstance(x, SymBytes):
        return x.sym_len()
    return len(x)


def sym_bytearray(x=b""):
    if isinstance(x, SymBytes):
        snap = x.snapshot()
        return SymBytes("bytearray", length=x.length, content=snap)
    return bytearray(x)


class Patched:
    def __enter__(self):
        xcpu.len = sym_len
        xcpu.bytearray = sym_bytearray
        return self

    def __exit__(self, *a):
        del xcpu.len
        del xcpu.bytearray


class _Ctx:
    minimum_alignment = 1

    def __init__(self, name):
        self.name = name


def mkbuf(kind, native, ctx):
    cls = {"BufferNumpy": BufferNumpy, "BufferByteArray": BufferByteArray}[kind]
    b = cls.__new__(cls)
    b.context = ctx
    b.buffer = native
    b.capacity = mk(native.length)
    b.default_alignment = 1
    b.chunks = []
    b.grow_step = None
    return b


NATIVE = {"BufferNumpy": "ndarray", "BufferByteArray": "bytearray"}


# --------------------------------------------------------------------------
def harness(cfg):
    prim, kind, variant = cfg
    name = f"{prim}[{kind},{variant}]"
    e = Engine(name, max_decisions=400)

    def body(e):
        cap = e.sym("cap", 0, BIG)
        off = e.sym("off")
        n = e.sym("n")
        so = e.sym("so")
        slen = e.sym("slen", 0, BIG)
        p = T(e.fresh_int("p"))
        ctx = _Ctx("A")
        native = SymBytes(NATIVE[kind], length=cap.e, name="dst")
        pre = native.snapshot()
        b = mkbuf(kind, native, ctx)
        det = lambda m: {k: m.eval(v.e, model_completion=True).as_long() for k, v in (("cap", cap), ("off", off), ("n", n), ("so", so), ("slen", slen))}
        inside_dst = z3.And(off.e >= 0, n.e >= 0, off.e + n.e <= cap.e)
        inside_src = z3.And(so.e >= 0, so.e + n.e <= slen.e)

        def post_is(expected_in_range, what):
            rootlen = native.length
            e.prove(rootlen == cap.e, f"{what}: the buffer keeps its length", det)
            e.prove(
                z3.Implies(z3.And(0 <= p, p < cap.e), native.content(p) == z3.If(z3.And(off.e <= p, p < off.e + n.e), expected_in_range(p), pre(p))),
                f"{what}: exactly the requested bytes change, to exactly the source bytes; all others keep their value",
                det,
            )

        try:
            if prim == "update_from_native":
                if variant == "other":
                    src = SymBytes(NATIVE[kind], length=slen.e, name="src")
                    e.assume(z3.And(inside_dst, inside_src))
                    spre = src.snapshot()
                    b.update_from_native(off, src, so, n)
                    post_is(lambda q: spre(so.e + q - off.e), prim)
                    e.prove(z3.Implies(z3.And(0 <= p, p < slen.e), src.at(p) == spre(p)), f"{prim}: the source is not modified", det)
                    e.prove(src.length == slen.e, f"{prim}: the source keeps its length", det)
                else:  # source is the buffer's own storage (copy inside one buffer), ranges may overlap
                    e.assume(z3.And(inside_dst, so.e >= 0, so.e + n.e <= cap.e))
                    b.update_from_native(off, native, so, n)
                    post_is(lambda q: pre(so.e + q - off.e), prim + " (same storage)")
            elif prim == "copy_to_native":
                dst2 = SymBytes(NATIVE[kind], length=slen.e, name="dst2")
                d2pre = dst2.snapshot()
                e.assume(z3.And(off.e >= 0, n.e >= 0, off.e + n.e <= cap.e, so.e >= 0, so.e + n.e <= slen.e))
                b.copy_to_native(dst2, so, off, n)  # dest, dest_offset, source_offset, nbytes
                e.prove(dst2.length == slen.e, f"{prim}: the destination keeps its length", det)
                e.prove(
                    z3.Implies(z3.And(0 <= p, p < slen.e), dst2.at(p) == z3.If(z3.And(so.e <= p, p < so.e + n.e), pre(off.e + p - so.e), d2pre(p))),
                    f"{prim}: exactly nbytes bytes arrive at dest_offset, everything else in the destination is untouched",
                    det,
                )
                e.prove(z3.Implies(z3.And(0 <= p, p < cap.e), native.at(p) == pre(p)), f"{prim}: the buffer itself is not modified", det)
            elif prim == "update_from_buffer":
                src = SymBytes("bytearray", length=n.e, name="pysrc")  # a Python bytes-like of length n
                spre = src.snapshot()
                e.assume(inside_dst)
                b.update_from_buffer(off, src)
                post_is(lambda q: spre(q - off.e), prim)
            elif prim in ("to_native", "to_bytearray", "to_pointer_arg"):
                e.assume(inside_dst)
                r = getattr(b, prim)(off, n)
                ok_type = isinstance(r, SymBytes)
                e.prove(z3.BoolVal(ok_type), f"{prim}: returns a byte container", det)
                if ok_type:
                    e.prove(r.length == n.e, f"{prim}: returns exactly nbytes bytes", det)
                    e.prove(z3.Implies(z3.And(0 <= p, p < n.e), r.at(p) == pre(off.e + p)), f"{prim}: returned bytes are the buffer bytes at the requested offset", det)
                    if prim in ("to_native", "to_bytearray"):
                        e.prove(z3.BoolVal(r.parent is None), f"{prim}: the extracted copy is independent of the buffer (not a view)", det)
                    if prim == "to_bytearray":
                        e.prove(z3.BoolVal(r.kind == "bytearray"), f"{prim}: returns a bytearray", det)
                e.prove(z3.Implies(z3.And(0 <= p, p < cap.e), native.at(p) == pre(p)), f"{prim}: the buffer is not modified", det)
                e.prove(native.length == cap.e, f"{prim}: the buffer keeps its length", det)
            elif prim == "update_from_xbuffer":
                skind = kind if variant.startswith("same") else ("BufferByteArray" if kind == "BufferNumpy" else "BufferNumpy")
                sctx = ctx if variant == "same_context" else _Ctx("B")
                snative = SymBytes(NATIVE[skind if variant != "same_context" else kind], length=slen.e, name="src")
                sb = mkbuf(skind if variant != "same_context" else kind, snative, sctx)
                spre = snative.snapshot()
                e.assume(z3.And(inside_dst, inside_src))
                b.update_from_xbuffer(off, sb, so, n)
                post_is(lambda q: spre(so.e + q - off.e), f"{prim} ({variant})")
                e.prove(z3.Implies(z3.And(0 <= p, p < slen.e), snative.at(p) == spre(p)), f"{prim}: the source buffer is not modified", det)
                e.prove(snative.length == slen.e, f"{prim}: the source buffer keeps its length", det)
        except Exception as ex:  # noqa
            e.fail(f"{prim} raised {type(ex).__name__} on ranges inside both containers", det)
        e.reach()

    with Patched():
        e.explore(body)
    r = e.result()
    r["cfg"] = list(cfg)
    return r


def validate_model():
    """S6 against the real containers: every slice read / slice assignment with bounds in -3..9 on
    containers of length 0..6 gives the same length, content and error as bytearray / int8 ndarray"""
    n = bad = 0
    msgs = []
    for kind in ("bytearray", "ndarray"):
        for L in range(0, 6):
            base = bytes(range(10, 10 + L))
            for a in (None, -7, -2, 0, 1, 3, 6, 8):
                for b in (None, -7, -1, 0, 2, 5, 9):
                    real = bytearray(base) if kind == "bytearray" else np.frombuffer(bytearray(base), dtype="int8").copy()
                    start, ln = clamp_slice(a, b, L)
                    got = (z3.simplify(start).as_long(), z3.simplify(ln).as_long())
                    rs = real[a:b]
                    exp_len = len(rs)
                    n += 1
                    if got[1] != exp_len or (exp_len and bytes(bytearray(rs))[0] != base[got[0]]):
                        bad += 1
                        msgs.append(f"slice {kind} L={L} [{a}:{b}] model {got} real len {exp_len}")
                    for vl in (0, 1, 2, exp_len):
                        val = bytes(range(100, 100 + vl))
                        n += 1
                        try:
                            if kind == "bytearray":
                                real2 = bytearray(base)
                                real2[a:b] = val
                            else:
                                real2 = np.frombuffer(bytearray(base), dtype="int8").copy()
                                real2[a:b] = np.frombuffer(val, dtype="int8")
                            outcome = bytes(bytearray(real2))
                        except ValueError:
                            outcome = "ValueError"
                        # model, concretely
                        if kind == "ndarray":
                            if vl == exp_len:
                                m = base[: got[0]] + val + base[got[0] + exp_len :]
                            elif vl == 1:
                                m = base[: got[0]] + val * exp_len + base[got[0] + exp_len :]
                            else:
                                m = "ValueError"
                        else:
                            m = base[: got[0]] + val + base[got[0] + got[1] :]
                        if m != outcome:
                            bad += 1
                            msgs.append(f"assign {kind} L={L} [{a}:{b}] = {vl} bytes: model {m!r} real {outcome!r}")
    return n, bad, msgs[:5]


REPLAY = '''#!/usr/bin/env python
"""replay of a C13 counterexample on the real CPU buffers (exit 1 = property violated)"""
import sys
import numpy as np
from xobjects.context_cpu import BufferNumpy, BufferByteArray, ContextCpu
CASE = {case}
prim, kind, variant = CASE["cfg"]
m = CASE["model"]
cap, off, n, so, slen = (m.get(k, 0) for k in ("cap", "off", "n", "so", "slen"))
if max(cap, slen) > (1 << 24): print("model too large to replay"); sys.exit(2)
K = dict(BufferNumpy=BufferNumpy, BufferByteArray=BufferByteArray)
def fill(b, c, salt):
    for k in range(c): b.buffer[k] = (k * 7 + salt) % 120 + 1
def img(b): return bytes(bytearray(b.buffer))
def fail(msg): print("VIOLATED:", msg, "| case", CASE); sys.exit(1)
ctx = ContextCpu()
b = K[kind](capacity=cap, context=ctx); fill(b, cap, 3); pre = img(b)
try:
    if prim == "update_from_native":
        if variant == "other":
            s = K[kind](capacity=slen, context=ctx); fill(s, slen, 11); spre = img(s)
            b.update_from_native(off, s.buffer, so, n)
            exp = pre[:off] + spre[so:so + n] + pre[off + n:]
            if img(s) != spre: fail("source modified")
        else:
            b.update_from_native(off, b.buffer, so, n)
            exp = pre[:off] + pre[so:so + n] + pre[off + n:]
        if img(b) != exp: fail("buffer content after update_from_native differs from the specification")
    elif prim == "copy_to_native":
        d = K[kind](capacity=slen, context=ctx); fill(d, slen, 11); dpre = img(d)
        b.copy_to_native(d.buffer, so, off, n)
        if img(d) != dpre[:so] + pre[off:off + n] + dpre[so + n:]: fail("destination content after copy_to_native differs from the specification")
        if img(b) != pre: fail("buffer modified by copy_to_native")
    elif prim == "update_from_buffer":
        data = bytes((k * 5 + 1) % 250 for k in range(n))
        b.update_from_buffer(off, data)
        if img(b) != pre[:off] + data + pre[off + n:]: fail("buffer content after update_from_buffer differs from the specification")
    elif prim in ("to_native", "to_bytearray", "to_pointer_arg"):
        r = getattr(b, prim)(off, n)
        if bytes(bytearray(r)) != pre[off:off + n]: fail(prim + " returned other bytes than requested")
        if img(b) != pre: fail("buffer modified")
        if prim != "to_pointer_arg" and n > 0:
            r[0] = (int(r[0]) + 1) % 100
            if img(b) != pre: fail(prim + " result aliases the buffer")
    elif prim == "update_from_xbuffer":
        skind = kind if variant.startswith("same") else ("BufferByteArray" if kind == "BufferNumpy" else "BufferNumpy")
        sctx = ctx if variant == "same_context" else ContextCpu()
        s = K[skind if variant != "same_context" else kind](capacity=slen, context=sctx); fill(s, slen, 11); spre = img(s)
        b.update_from_xbuffer(off, s, so, n)
        if img(b) != pre[:off] + spre[so:so + n] + pre[off + n:]: fail("buffer content after update_from_xbuffer differs from the specification")
        if img(s) != spre: fail("source buffer modified")
except SystemExit: raise
except Exception as ex:
    fail(f"{{prim}} raised {{type(ex).__name__}}: {{str(ex)[:100]}}")
print("property holds on this case"); sys.exit(0)
'''


def main(pid):
    tr = tier()
    rep = Report(pid, "model_checking", tr, technique="symbolic execution of the real slice-arithmetic primitives of BufferNumpy/BufferByteArray on a symbolic byte-container model (length and content symbolic); Skolem-position postcondition discharged by z3")
    jobs = []
    for kind in ("BufferNumpy", "BufferByteArray"):
        jobs += [("update_from_native", kind, "other"), ("update_from_native", kind, "self"), ("copy_to_native", kind, "-"), ("update_from_buffer", kind, "-"), ("to_native", kind, "-"), ("to_bytearray", kind, "-"), ("to_pointer_arg", kind, "-")]
        jobs += [("update_from_xbuffer", kind, v) for v in ("same_context", "other_context_same_kind", "other_context_other_kind")]
    results = run_parallel(harness, jobs)
    for cfg, res in zip(jobs, results):
        rep.add_engine_result(res)
        for cex in res["cexs"]:
            sig = f"{cfg[0]}:{cex['obligation'].split(':')[-1].strip()[:60]}"
            model = cex.get("detail") or cex.get("model")
            rep.candidate(sig, f"{res['name']}: {cex['obligation']} with {json.dumps(model)}", REPLAY.format(case=repr({"cfg": list(cfg), "model": model})))
    nval, bad, msgs = validate_model()
    rep.validated += nval
    rep.extra["model_validation_cases"] = nval
    if bad:
        rep.harness_error(f"container model S6 disagrees with the real bytearray/ndarray on {bad} of {nval} cases: {msgs}")
    for k in (BufferNumpy, BufferByteArray):
        for meth in ("update_from_native", "copy_to_native", "to_native", "update_from_buffer", "to_bytearray", "to_pointer_arg"):
            rep.add_function(getattr(k, meth))
    rep.add_function(xctx.XBuffer.update_from_xbuffer)
    rep.bounds = {
        "capacity, offsets, lengths": "unbounded integers in [0, 2^62) (solver); content uninterpreted",
        "precondition": "ranges inside both containers (the documented caller contract)",
        "primitives": [j[0] for j in jobs[:10]],
        "outside_claim": ["update_from_nplike, to_nplike/to_nparray, scalar.py helpers (NumPy dtype conversion / views: not encodable; exercised concretely by the write-side validation runs)", "GPU buffers", "ranges outside the containers"],
    }
    rep.assumptions = ["S6: bytearray / 1-D int8 ndarray slice semantics as modelled by SymBytes (validated this run against the real containers on %d small cases)" % nval, "len/bytearray inside xobjects.context_cpu are replaced by versions that accept the model"]
    rep.stubs = ["S6"]
    rep.extra["partial"] = "slice primitives only; the NumPy-conversion part of C13 is not applicable to the technique"
    return rep.finish()
