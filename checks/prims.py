"""C13 (partial) -- CPU buffer copy primitives move exactly the requested bytes.

The real methods of `BufferNumpy` and `BufferByteArray` whose body is slice
arithmetic (`update_from_native`, `copy_to_native`, `to_native`,
`update_from_buffer`, `to_bytearray`, `to_pointer_arg`) and
`XBuffer.update_from_xbuffer` run with `self.buffer` (and the source) replaced
by `SymBytes`: a model of `bytearray` / 1-D int8 `ndarray` whose length is a
solver variable and whose content is an uninterpreted function of the position
(model S6: slice clamping, length change of bytearray slice assignment,
broadcast/shape error of ndarray slice assignment, views alias, copies do not).
Capacity, offset, source offset and length are symbolic; a Skolem position p
states "post[p] = src[so+p-off] inside the range, pre[p] outside".

NOT covered (stated in DESIGN.md 5/C13, 6): update_from_nplike, to_nplike /
to_nparray, scalar.py helpers -- dtype conversion, flatten, view and
np.frombuffer are NumPy C code; they are exercised concretely by the write-side
checks' validation runs only.
"""
import itertools
import json

import numpy as np
import z3

from vx import symx
from vx.symx import Engine, SymInt, T, mk, is_stub_gap
from vx.report import Report, run_parallel, tier, seed

import xobjects.context_cpu as xcpu
import xobjects.context as xctx
from xobjects.context_cpu import BufferNumpy, BufferByteArray

BIG = 2**62
_fresh = itertools.count()


def clamp_slice(a, b, n):
    """Python slice.indices for step 1 (a, b may be None / negative), as z3 terms"""
    n = T(n)

    def norm(x, default):
        if x is None:
            return default
        x = T(x)
        x = z3.If(x < 0, x + n, x)
        return z3.If(x < 0, 0, z3.If(x > n, n, x))

    start = norm(a, z3.IntVal(0))
    stop = norm(b, n)
    ln = z3.If(stop > start, stop - start, 0)
    return z3.simplify(start), z3.simplify(ln)


class SymBytes:
    """kind 'bytearray' | 'ndarray'.  A *root* owns (length, content); a *view* (ndarray slices)
    refers to (parent, start, length) and reads/writes through."""

    def __init__(self, kind, length=None, content=None, parent=None, start=None, name=None):
        self.kind = kind
        self.parent = parent
        self.start = start
        self.name = name or f"m{next(_fresh)}"
        if parent is None:
            self.length = T(length)
            if content is None:
                f = z3.Function(f"byte_{self.name}", z3.IntSort(), z3.IntSort())
                content = lambda p, f=f: f(p)
            self.content = content
        else:
            self.length = T(length)
        self.writes = 0

    # -- reading ------------------------------------------------------------
    def at(self, p):
        if self.parent is not None:
            return self.parent.at(self.start + p)
        return self.content(p)

    def snapshot(self):
        """immutable content function of the current state (position relative to this object)"""
        if self.parent is None:
            c = self.content
            return lambda p: c(p)
        root, off = self._root()
        c = root.content
        return lambda p: c(off + p)

    def _root(self):
        off = z3.IntVal(0)
        x = self
        while x.parent is not None:
            off = off + x.start
            x = x.parent
        return x, off

    def __len__(self):
        raise TypeError("len() of a symbolic byte container: use the patched len")

    def sym_len(self):
        return mk(self.length)

    @property
    def nbytes(self):
        return mk(self.length)

    def __getitem__(self, key):
        if not isinstance(key, slice) or key.step not in (None, 1):
            raise symx.Abort()
        start, ln = clamp_slice(key.start, key.stop, self.length)
        if self.kind == "ndarray":
            return SymBytes("ndarray", length=ln, parent=self, start=start)
        snap = self.snapshot()
        return SymBytes("bytearray", length=ln, content=lambda p: snap(start + p))

    def copy(self):
        snap = self.snapshot()
        return SymBytes(self.kind, length=self.length, content=snap)

    # -- writing ------------------------------------------------------------
    def __setitem__(self, key, value):
        if not isinstance(key, slice) or key.step not in (None, 1):
            raise symx.Abort()
        e = symx.engine()
        start, ln = clamp_slice(key.start, key.stop, self.length)
        if isinstance(value, SymBytes):
            vlen = value.length
            vsnap = value.snapshot()
        else:
            data = bytes(value)
            vlen = z3.IntVal(len(data))
            vsnap = lambda p, data=data: _bytes_fun(data, p)
        root, off = self._root()
        old = root.content
        s0 = off + start
        self_w = self
        if self.kind == "ndarray":
            # NumPy: shapes must match, or the value has length 1 (broadcast)
            if e.decide(vlen == ln):
                root.content = lambda p: z3.If(z3.And(s0 <= p, p < s0 + ln), vsnap(p - s0), old(p))
            elif e.decide(vlen == 1):
                root.content = lambda p: z3.If(z3.And(s0 <= p, p < s0 + ln), vsnap(z3.IntVal(0)), old(p))
            else:
                raise ValueError("could not broadcast input array into shape")
        else:
            if self.parent is not None:
                raise symx.Abort()
            if isinstance(value, SymBytes) and value.kind == "ndarray":
                # CPython refuses objects that implement the number protocol (every ndarray does) as the value of a
                # bytearray slice assignment -- validated in validate_model
                raise TypeError("can assign only bytes, buffers, or iterables of ints in range(0, 256)")
            # bytearray: the slice is replaced, the container may change its length
            root.content = lambda p: z3.If(p < s0, old(p), z3.If(p < s0 + vlen, vsnap(p - s0), old(p - vlen + ln)))
            root.length = z3.simplify(root.length - ln + vlen)
        root.writes += 1


def _bytes_fun(data, p):
    r = z3.IntVal(0)
    for k in reversed(range(len(data))):
        r = z3.If(p == k, data[k], r)
    return r


def sym_len(x):
    if isinstance(x, SymBytes):
        k = getattr(x, "itemsize", 1)
        if k != 1:
            return mk(x.length / k)  # len() of a typed memoryview counts items, not bytes
        return x.sym_len()
    return len(x)


def sym_bytearray(x=b""):
    if isinstance(x, SymBytes):
        snap = x.snapshot()
        return SymBytes("bytearray", length=x.length, content=snap)
    if isinstance(x, SymInt):
        # bytearray(n): n bytes (zero in reality; arbitrary here, which includes zero)
        return SymBytes("bytearray", length=x.e)
    return bytearray(x)


class SymNd:
    """S16: a NumPy array as the primitives see it -- a concrete dtype, a SYMBOLIC element count, content opaque.
    astype() gives another array of the same count (fresh opaque content = the converted values), flatten() the same
    elements in C order, view('int8') / .data its count*itemsize bytes."""

    def __init__(self, dtype, count, tag):
        self.dtype = np.dtype(dtype)
        self.count = T(count)
        self.tag = tag
        self.bytes = SymBytes("ndarray", length=z3.simplify(self.count * self.dtype.itemsize), name=f"nd_{tag}_{self.dtype.name}")
        self.conversions = 0

    def astype(self, dtype=None, **kw):
        r = SymNd(dtype, self.count, self.tag + "_as")
        r.conversions = self.conversions + 1
        r.origin = self
        return r

    def flatten(self, order="C"):
        return self

    ravel = flatten

    def reshape(self, *shape, **kw):
        return self  # one-dimensional already; same elements in index order

    def view(self, dtype):
        if np.dtype(dtype).itemsize != 1:
            raise symx.Abort()
        SymNdLog.last = self
        return self.bytes

    @property
    def data(self):
        SymNdLog.last = self
        return self.bytes

    @property
    def nbytes(self):
        return mk(self.bytes.length)

    @property
    def size(self):
        return mk(self.count)


class SymNdLog:
    last = None  # the array whose bytes were handed out last (per harness path)


class SymView:
    """what np.frombuffer(storage, dtype, count, offset) gives: a typed window on the storage (aliases it)"""

    def __init__(self, root, dtype, count, offset):
        self.root, self.dtype, self.count, self.offset = root, np.dtype(dtype), T(count), T(offset)
        self.shape = None
        self.window = SymBytes("ndarray", length=z3.simplify(self.count * self.dtype.itemsize), parent=root, start=self.offset)

    def reshape(self, *shape):
        self.shape = list(shape[0]) if len(shape) == 1 and isinstance(shape[0], (list, tuple)) else list(shape)
        return self


class NPProxy:
    """numpy as seen by xobjects.context_cpu during the symbolic run"""

    def __getattr__(self, name):
        return getattr(np, name)

    def prod(self, xs, *a, **k):
        xs = list(xs)
        if any(isinstance(x, SymInt) for x in xs):
            r = mk(z3.IntVal(1))
            for x in xs:
                r = r * x
            return r
        return np.prod(xs, *a, **k)

    def zeros(self, shape, dtype=float, *a, **k):
        if isinstance(shape, SymInt) and np.dtype(dtype).itemsize == 1:
            return SymBytes("ndarray", length=shape.e)
        return np.zeros(shape, dtype, *a, **k)

    def frombuffer(self, buf, dtype=float, count=-1, offset=0):
        if isinstance(buf, SymBytes):
            e = symx.engine()
            isz = np.dtype(dtype).itemsize
            # NumPy raises when the window does not fit the buffer
            fits = z3.And(T(offset) >= 0, T(count) >= 0, T(offset) + T(count) * isz <= buf.length)
            if not e.decide(fits):
                raise ValueError("buffer is smaller than requested size")
            return SymView(buf, dtype, count, offset)
        return np.frombuffer(buf, dtype=dtype, count=count, offset=offset)


class _SymMV:
    """memoryview(x) of a symbolic byte container: .cast('B') gives its bytes (item size 1), .nbytes their number"""

    def __init__(self, x):
        self.x = x

    def cast(self, fmt, *a):
        if fmt not in ("B", "b", "c"):
            raise symx.Abort()
        snap = self.x.snapshot()
        return SymBytes("bytearray", length=self.x.length, content=snap)

    @property
    def nbytes(self):
        return mk(self.x.length)


def sym_memoryview(x):
    return _SymMV(x) if isinstance(x, SymBytes) else memoryview(x)


class Patched:
    def __enter__(self):
        xcpu.len = sym_len
        xcpu.bytearray = sym_bytearray
        xcpu.memoryview = sym_memoryview
        self._np = xcpu.np
        self._n2n = xcpu.nplike_to_numpy
        xcpu.np = NPProxy()
        xcpu.nplike_to_numpy = lambda a: a if isinstance(a, SymNd) else self._n2n(a)
        return self

    def __exit__(self, *a):
        del xcpu.len
        del xcpu.bytearray
        del xcpu.memoryview
        xcpu.np = self._np
        xcpu.nplike_to_numpy = self._n2n


class _Ctx:
    minimum_alignment = 1

    def __init__(self, name):
        self.name = name


def mkbuf(kind, native, ctx):
    cls = {"BufferNumpy": BufferNumpy, "BufferByteArray": BufferByteArray}[kind]
    b = cls.__new__(cls)
    b.context = ctx
    b.buffer = native
    b.capacity = mk(native.length)
    b.default_alignment = 1
    b.chunks = []
    b.grow_step = None
    return b


NATIVE = {"BufferNumpy": "ndarray", "BufferByteArray": "bytearray"}


def newbuf(kind, cap, ctx):
    """a buffer made by the REAL constructor (so that whatever per-buffer state `__init__`/`_new_buffer` set up exists),
    its storage being the symbolic container the patched bytearray()/np.zeros() hand out; falls back to a bare object
    around a fresh container when the constructor does not produce one"""
    cls = {"BufferNumpy": BufferNumpy, "BufferByteArray": BufferByteArray}[kind]
    try:
        b = cls(capacity=cap, context=ctx)
        if isinstance(b.buffer, SymBytes) and b.buffer.kind == NATIVE[kind]:
            return b, b.buffer
    except Exception as ex:  # noqa
        if not is_stub_gap(ex):
            raise
    native = SymBytes(NATIVE[kind], length=cap.e, name="dst")
    return mkbuf(kind, native, ctx), native


# --------------------------------------------------------------------------
def harness(cfg):
    prim, kind, variant = cfg
    name = f"{prim}[{kind},{variant}]"
    e = Engine(name, max_decisions=400)

    def body(e):
        cap = e.sym("cap", 0, BIG)
        off = e.sym("off")
        n = e.sym("n")
        so = e.sym("so")
        slen = e.sym("slen", 0, BIG)
        p = T(e.fresh_int("p"))
        ctx = _Ctx("A")
        extra = {}
        grown = variant.endswith("+grown")
        if grown:
            # the primitive runs on a buffer that has GROWN before (real XBuffer.grow: new storage, old content copied):
            # whatever the buffer object remembers about its storage must follow (M10-C13)
            cap0, g = e.sym("cap0", 0, BIG), e.sym("g", 0, BIG)
            extra.update(cap0=cap0, g=g)
            e.assume(cap.e == cap0.e + g.e)
            try:
                b, native0 = newbuf(kind, cap0, ctx)
                old = native0.snapshot()
                b.grow(g)
            except Exception as ex:  # noqa
                if is_stub_gap(ex):
                    raise symx.Inconclusive()
                raise
            native = b.buffer
            if not isinstance(native, SymBytes):
                raise symx.Inconclusive()
            det0 = lambda m: {k: m.eval(v.e, model_completion=True).as_long() for k, v in extra.items()}
            e.prove(native.length == cap.e, "grow: the new storage has the old capacity plus the requested amount", det0)
            e.prove(z3.Implies(z3.And(0 <= p, p < cap0.e), native.at(p) == old(p)), "grow: the old content is carried over to the new storage", det0)
        else:
            b, native = newbuf(kind, cap, ctx)
        pre = native.snapshot()
        variant_ = variant[: -len("+grown")] if grown else variant
        det = lambda m: {k: m.eval(v.e, model_completion=True).as_long() for k, v in list((("cap", cap), ("off", off), ("n", n), ("so", so), ("slen", slen))) + list(extra.items())}
        inside_dst = z3.And(off.e >= 0, n.e >= 0, off.e + n.e <= cap.e)
        inside_src = z3.And(so.e >= 0, so.e + n.e <= slen.e)

        def post_is(expected_in_range, what):
            rootlen = native.length
            e.prove(rootlen == cap.e, f"{what}: the buffer keeps its length", det)
            e.prove(
                z3.Implies(z3.And(0 <= p, p < cap.e), native.content(p) == z3.If(z3.And(off.e <= p, p < off.e + n.e), expected_in_range(p), pre(p))),
                f"{what}: exactly the requested bytes change, to exactly the source bytes; all others keep their value",
                det,
            )

        try:
            if prim == "update_from_native":
                if variant_ == "other":
                    src = SymBytes(NATIVE[kind], length=slen.e, name="src")
                    e.assume(z3.And(inside_dst, inside_src))
                    spre = src.snapshot()
                    b.update_from_native(off, src, so, n)
                    post_is(lambda q: spre(so.e + q - off.e), prim)
                    e.prove(z3.Implies(z3.And(0 <= p, p < slen.e), src.at(p) == spre(p)), f"{prim}: the source is not modified", det)
                    e.prove(src.length == slen.e, f"{prim}: the source keeps its length", det)
                else:  # source is the buffer's own storage (copy inside one buffer), ranges may overlap
                    e.assume(z3.And(inside_dst, so.e >= 0, so.e + n.e <= cap.e))
                    b.update_from_native(off, native, so, n)
                    post_is(lambda q: pre(so.e + q - off.e), prim + " (same storage)")
            elif prim == "copy_to_native":
                dst2 = SymBytes(NATIVE[kind], length=slen.e, name="dst2")
                d2pre = dst2.snapshot()
                e.assume(z3.And(off.e >= 0, n.e >= 0, off.e + n.e <= cap.e, so.e >= 0, so.e + n.e <= slen.e))
                b.copy_to_native(dst2, so, off, n)  # dest, dest_offset, source_offset, nbytes
                e.prove(dst2.length == slen.e, f"{prim}: the destination keeps its length", det)
                e.prove(
                    z3.Implies(z3.And(0 <= p, p < slen.e), dst2.at(p) == z3.If(z3.And(so.e <= p, p < so.e + n.e), pre(off.e + p - so.e), d2pre(p))),
                    f"{prim}: exactly nbytes bytes arrive at dest_offset, everything else in the destination is untouched",
                    det,
                )
                e.prove(z3.Implies(z3.And(0 <= p, p < cap.e), native.at(p) == pre(p)), f"{prim}: the buffer itself is not modified", det)
            elif prim == "update_from_buffer":
                src = SymBytes("bytearray", length=n.e, name="pysrc")  # a Python bytes-like of n bytes
                if variant_.startswith("memoryview/"):
                    # the .data of a NumPy array with items of k bytes (documented as a valid source): n bytes, n/k items
                    k = int(variant_.split("/")[1])
                    src.itemsize = k
                    e.assume(n.e % k == 0)
                spre = src.snapshot()
                e.assume(inside_dst)
                b.update_from_buffer(off, src)
                post_is(lambda q: spre(q - off.e), prim)
            elif prim in ("to_native", "to_bytearray", "to_pointer_arg"):
                e.assume(inside_dst)
                r = getattr(b, prim)(off, n)
                ok_type = isinstance(r, SymBytes)
                e.prove(z3.BoolVal(ok_type), f"{prim}: returns a byte container", det)
                if ok_type:
                    e.prove(r.length == n.e, f"{prim}: returns exactly nbytes bytes", det)
                    e.prove(z3.Implies(z3.And(0 <= p, p < n.e), r.at(p) == pre(off.e + p)), f"{prim}: returned bytes are the buffer bytes at the requested offset", det)
                    if prim in ("to_native", "to_bytearray"):
                        e.prove(z3.BoolVal(r.parent is None), f"{prim}: the extracted copy is independent of the buffer (not a view)", det)
                    if prim == "to_bytearray":
                        e.prove(z3.BoolVal(r.kind == "bytearray"), f"{prim}: returns a bytearray", det)
                e.prove(z3.Implies(z3.And(0 <= p, p < cap.e), native.at(p) == pre(p)), f"{prim}: the buffer is not modified", det)
                e.prove(native.length == cap.e, f"{prim}: the buffer keeps its length", det)
            elif prim == "update_from_nplike":
                # variant = "<source dtype>-><destination dtype>"
                sdt, ddt = variant_.split("->")
                cnt = e.sym("cnt", 0, BIG)
                extra["cnt"] = cnt
                SymNdLog.last = None
                src = SymNd(sdt, cnt.e, "src")
                dsz = np.dtype(ddt).itemsize
                e.assume(z3.And(off.e >= 0, off.e + cnt.e * dsz <= cap.e, n.e == cnt.e * dsz))
                b.update_from_nplike(off, np.dtype(ddt), src)
                # the bytes that must arrive: those of the array in the DESTINATION dtype (the source's own bytes when
                # the dtypes agree, the bytes of exactly one conversion otherwise)
                rootlen = native.length
                e.prove(rootlen == cap.e, f"{prim}: the buffer keeps its length", det)
                w = SymNdLog.last
                ok_src = w is not None and w.dtype == np.dtype(ddt) and ((w is src) if sdt == ddt else (getattr(w, "origin", None) is src and w.conversions == 1))
                e.prove(z3.BoolVal(bool(ok_src)), f"{prim}: the bytes written are those of the array in the destination dtype (converted once iff the dtypes differ)", det)
                if w is not None:
                    wb = w.bytes.snapshot()
                    e.prove(
                        z3.Implies(z3.And(0 <= p, p < cap.e), native.content(p) == z3.If(z3.And(off.e <= p, p < off.e + cnt.e * dsz), wb(p - off.e), pre(p))),
                        f"{prim}: exactly count*itemsize(destination dtype) bytes change, at the requested offset, to the array's bytes; all others keep their value",
                        det,
                    )
            elif prim in ("to_nplike", "to_nparray"):
                dt, nd = variant_.split("/")
                nd = int(nd)
                dims = [e.sym(f"d{k}", 0, BIG) for k in range(nd)]
                for k, d in enumerate(dims):
                    extra[f"d{k}"] = d
                isz = np.dtype(dt).itemsize
                tot = z3.IntVal(1)
                for d in dims:
                    tot = tot * d.e
                e.assume(z3.And(off.e >= 0, off.e + tot * isz <= cap.e, n.e == tot * isz))
                r = getattr(b, prim)(off, np.dtype(dt), dims)
                okv = isinstance(r, SymView)
                e.prove(z3.BoolVal(okv), f"{prim}: returns a typed window on the buffer's storage (a view, not a copy)", det)
                if okv:
                    e.prove(z3.BoolVal(r.root is native), f"{prim}: the view aliases the buffer's own storage", det)
                    e.prove(r.offset == off.e, f"{prim}: the view starts at the requested offset", det)
                    e.prove(r.window.length == tot * isz, f"{prim}: the view covers exactly prod(shape)*itemsize bytes", det)
                    e.prove(z3.BoolVal(r.dtype == np.dtype(dt)), f"{prim}: the view has the requested dtype", det)
                    e.prove(z3.BoolVal(r.shape is not None and len(r.shape) == nd and all(a is b_ for a, b_ in zip(r.shape, dims))), f"{prim}: the view has the requested shape", det)
                e.prove(z3.Implies(z3.And(0 <= p, p < cap.e), native.at(p) == pre(p)), f"{prim}: the buffer is not modified", det)
            elif prim == "update_from_xbuffer":
                # (a context may hold buffers of both kinds: "same_context_other_kind")
                skind = ("BufferByteArray" if kind == "BufferNumpy" else "BufferNumpy") if variant_.endswith("other_kind") else kind
                sctx = ctx if variant_.startswith("same_context") else _Ctx("B")
                snative = SymBytes(NATIVE[skind], length=slen.e, name="src")
                sb = mkbuf(skind, snative, sctx)
                spre = snative.snapshot()
                e.assume(z3.And(inside_dst, inside_src))
                b.update_from_xbuffer(off, sb, so, n)
                post_is(lambda q: spre(so.e + q - off.e), f"{prim} ({variant_})")
                e.prove(z3.Implies(z3.And(0 <= p, p < slen.e), snative.at(p) == spre(p)), f"{prim}: the source buffer is not modified", det)
                e.prove(snative.length == slen.e, f"{prim}: the source buffer keeps its length", det)
        except Exception as ex:  # noqa
            if is_stub_gap(ex):
                raise symx.Inconclusive()
            e.fail(f"{prim} raised {type(ex).__name__} on ranges inside both containers", det)
        e.reach()

    with Patched():
        e.explore(body)
    r = e.result()
    r["cfg"] = list(cfg)
    return r


def validate_model():
    """S6 against the real containers: every slice read / slice assignment with bounds in -3..9 on
    containers of length 0..6 gives the same length, content and error as bytearray / int8 ndarray"""
    n = bad = 0
    msgs = []
    for kind in ("bytearray", "ndarray"):
        for L in range(0, 6):
            base = bytes(range(10, 10 + L))
            for a in (None, -7, -2, 0, 1, 3, 6, 8):
                for b in (None, -7, -1, 0, 2, 5, 9):
                    real = bytearray(base) if kind == "bytearray" else np.frombuffer(bytearray(base), dtype="int8").copy()
                    start, ln = clamp_slice(a, b, L)
                    got = (z3.simplify(start).as_long(), z3.simplify(ln).as_long())
                    rs = real[a:b]
                    exp_len = len(rs)
                    n += 1
                    if got[1] != exp_len or (exp_len and bytes(bytearray(rs))[0] != base[got[0]]):
                        bad += 1
                        msgs.append(f"slice {kind} L={L} [{a}:{b}] model {got} real len {exp_len}")
                    for vl in (0, 1, 2, exp_len):
                        val = bytes(range(100, 100 + vl))
                        n += 1
                        try:
                            if kind == "bytearray":
                                real2 = bytearray(base)
                                real2[a:b] = val
                            else:
                                real2 = np.frombuffer(bytearray(base), dtype="int8").copy()
                                real2[a:b] = np.frombuffer(val, dtype="int8")
                            outcome = bytes(bytearray(real2))
                        except ValueError:
                            outcome = "ValueError"
                        # model, concretely
                        if kind == "ndarray":
                            if vl == exp_len:
                                m = base[: got[0]] + val + base[got[0] + exp_len :]
                            elif vl == 1:
                                m = base[: got[0]] + val * exp_len + base[got[0] + exp_len :]
                            else:
                                m = "ValueError"
                        else:
                            m = base[: got[0]] + val + base[got[0] + got[1] :]
                        if m != outcome:
                            bad += 1
                            msgs.append(f"assign {kind} L={L} [{a}:{b}] = {vl} bytes: model {m!r} real {outcome!r}")
    # across the two kinds: bytearray[a:b] = int8 ndarray is a TypeError (whatever the lengths); ndarray[a:b] = bytearray
    # of the same length is accepted
    for L, vl in ((4, 4), (4, 2), (0, 0), (3, 1)):
        n += 2
        try:
            x = bytearray(range(10, 10 + L))
            x[0:L] = np.frombuffer(bytes(range(100, 100 + vl)), dtype="int8")
            bad += 1
            msgs.append(f"assign bytearray[0:{L}] = ndarray of {vl}: model TypeError, real accepted")
        except TypeError:
            pass
        if vl == L:
            y = np.frombuffer(bytearray(range(10, 10 + L)), dtype="int8").copy()
            y[0:L] = bytearray(range(100, 100 + vl))
            if bytes(bytearray(y)) != bytes(range(100, 100 + vl)):
                bad += 1
                msgs.append(f"assign ndarray[0:{L}] = bytearray of {vl}: real content differs from the value")
    return n, bad, msgs[:5]


REPLAY = '''#!/usr/bin/env python
"""replay of a C13 counterexample on the real CPU buffers (exit 1 = property violated)"""
import os, sys
if not sys.executable.startswith("/verif/.venv"):
    os.execv("/verif/.venv/bin/python", ["/verif/.venv/bin/python"] + sys.argv)
sys.path.insert(0, "/verif")
from checks import prims
CASE = {case}
r = prims.byte_case(CASE)
if r == "skip": print("model too large to replay"); sys.exit(2)
if r: print("VIOLATED:", r, "| case", CASE); sys.exit(1)
print("property holds on this case"); sys.exit(0)
'''


class _Fail(Exception):
    pass


def byte_case(CASE):
    """one primitive on REAL buffers of the given sizes against a bytes model; `+grown` variants first create the buffer
    with capacity cap0 and let the real grow() enlarge it to cap.  -> failure text | None | "skip" """
    from xobjects.context_cpu import ContextCpu

    prim, kind, variant = CASE["cfg"]
    m = CASE["model"] or {}
    cap, off, n, so, slen = (int(m.get(k, 0)) for k in ("cap", "off", "n", "so", "slen"))
    if max(cap, slen) > (1 << 24):
        return "skip"
    K = dict(BufferNumpy=BufferNumpy, BufferByteArray=BufferByteArray)

    def fill(b, c, salt, lo=0):
        for k in range(lo, c):
            b.buffer[k] = (k * 7 + salt) % 120 + 1

    def img(b):
        return bytes(bytearray(b.buffer))

    def fail(msg):
        raise _Fail(msg)

    ctx = ContextCpu()
    try:
        if variant.endswith("+grown"):
            variant = variant[: -len("+grown")]
            cap0 = min(int(m.get("cap0", cap // 2)), cap)
            b = K[kind](capacity=cap0, context=ctx)
            fill(b, cap0, 3)
            first = img(b)
            b.grow(cap - cap0)
            if len(img(b)) != cap or img(b)[:cap0] != first:
                fail("grow: the old content is not carried over / wrong new capacity")
            fill(b, cap, 3, cap0)
        else:
            b = K[kind](capacity=cap, context=ctx)
            fill(b, cap, 3)
        pre = img(b)
        if prim == "update_from_native":
            if variant == "other":
                s = K[kind](capacity=slen, context=ctx)
                fill(s, slen, 11)
                spre = img(s)
                b.update_from_native(off, s.buffer, so, n)
                exp = pre[:off] + spre[so : so + n] + pre[off + n :]
                if img(s) != spre:
                    fail("source modified")
            else:
                b.update_from_native(off, b.buffer, so, n)
                exp = pre[:off] + pre[so : so + n] + pre[off + n :]
            if img(b) != exp:
                fail("buffer content after update_from_native differs from the specification")
        elif prim == "copy_to_native":
            d = K[kind](capacity=slen, context=ctx)
            fill(d, slen, 11)
            dpre = img(d)
            b.copy_to_native(d.buffer, so, off, n)
            if img(d) != dpre[:so] + pre[off : off + n] + dpre[so + n :]:
                fail("destination content after copy_to_native differs from the specification")
            if img(b) != pre:
                fail("buffer modified by copy_to_native")
        elif prim == "update_from_buffer":
            data = bytes((k * 5 + 1) % 250 for k in range(n))
            if variant.startswith("memoryview/"):
                src = np.frombuffer(data, dtype="i" + variant.split("/")[1]).data
                b.update_from_buffer(off, src)
            else:
                b.update_from_buffer(off, data)
            if len(bytearray(b.buffer)) != cap:
                fail("the buffer changed its length")
            if img(b) != pre[:off] + data + pre[off + n :]:
                fail("buffer content after update_from_buffer differs from the specification")
        elif prim in ("to_native", "to_bytearray", "to_pointer_arg"):
            r = getattr(b, prim)(off, n)
            if bytes(bytearray(r)) != pre[off : off + n]:
                fail(prim + " returned other bytes than requested")
            if img(b) != pre:
                fail("buffer modified")
            if prim != "to_pointer_arg" and n > 0:
                r[0] = (int(r[0]) + 1) % 100
                if img(b) != pre:
                    fail(prim + " result aliases the buffer")
        elif prim == "update_from_nplike":
            sdt, ddt = variant.split("->")
            cnt = int(m.get("cnt", 0))
            if cnt > (1 << 22):
                return "skip"
            a = (np.arange(cnt) * 3 % 101 - 50).astype(sdt)
            b.update_from_nplike(off, np.dtype(ddt), a)
            data = a.astype(ddt).tobytes()
            if img(b) != pre[:off] + data + pre[off + len(data) :]:
                fail("buffer content after update_from_nplike differs from the specification")
        elif prim in ("to_nplike", "to_nparray"):
            dt, nd = variant.split("/")
            dims = [int(m.get("d%d" % k, 0)) for k in range(int(nd))]
            tot = int(np.prod(dims)) if dims else 1
            if tot > (1 << 22):
                return "skip"
            r = getattr(b, prim)(off, np.dtype(dt), dims)
            isz = np.dtype(dt).itemsize
            if list(r.shape) != list(dims) or r.dtype != np.dtype(dt):
                fail(prim + " returned another shape/dtype than requested")
            if r.tobytes() != pre[off : off + tot * isz]:
                fail(prim + " does not show the buffer bytes at the requested offset")
            if img(b) != pre:
                fail("buffer modified")
            if tot > 0:
                r.reshape(-1)[0] = r.reshape(-1)[0] + 1 if np.dtype(dt).kind != "f" else 1.5
                now = img(b)
                if now == pre or now[:off] != pre[:off] or now[off + isz :] != pre[off + isz :]:
                    fail(prim + ": a write through the typed view does not change exactly the bytes of that element in the buffer")
        elif prim == "update_from_xbuffer":
            skind = ("BufferByteArray" if kind == "BufferNumpy" else "BufferNumpy") if variant.endswith("other_kind") else kind
            sctx = ctx if variant.startswith("same_context") else ContextCpu()
            s = K[skind](capacity=slen, context=sctx)
            fill(s, slen, 11)
            spre = img(s)
            b.update_from_xbuffer(off, s, so, n)
            if img(b) != pre[:off] + spre[so : so + n] + pre[off + n :]:
                fail("buffer content after update_from_xbuffer differs from the specification")
            if img(s) != spre:
                fail("source buffer modified")
    except _Fail as f:
        return str(f)
    except Exception as ex:  # noqa
        return f"{prim} raised {type(ex).__name__}: {str(ex)[:100]}"
    return None


def bytes_concrete(jobs):
    """auxiliary, concrete: every byte primitive of the symbolic job list on real buffers with a few small sizes, with and
    without a growth before the call (what the symbolic container cannot represent -- e.g. a memoryview kept by the
    buffer object -- is observed here)"""
    cases = []
    for prim, kind, variant in jobs:
        if prim in ("update_from_nplike", "to_nplike", "to_nparray"):
            continue
        for cap, cap0, off, n, so, slen in ((40, 16, 8, 16, 4, 32), (72, 24, 40, 24, 0, 24), (24, 0, 0, 24, 8, 40), (16, 16, 3, 0, 5, 9)):
            if variant.startswith("memoryview/") and n % int(variant.split("/")[1].split("+")[0]):
                continue
            model = dict(cap=cap, cap0=cap0, off=off, n=n, so=min(so, max(0, (cap if variant.startswith("self") else slen) - n)), slen=max(slen, n))
            for v in (variant, variant + "+grown") if not variant.endswith("+grown") else (variant,):
                cases.append({"cfg": [prim, kind, v], "model": model})
    return cases


def _byte_case(c):
    r = byte_case(c)
    return None if r in (None, "skip") else r


DTYPES = ["int8", "int16", "int32", "int64", "uint8", "uint16", "uint32", "uint64", "float32", "float64"]

NP_REPLAY = '''#!/usr/bin/env python
"""replay of a concrete NumPy-conversion case of C13 on the real CPU buffers (exit 1 = property violated)"""
import os, sys
if not sys.executable.startswith("/verif/.venv"):
    os.execv("/verif/.venv/bin/python", ["/verif/.venv/bin/python"] + sys.argv)
sys.path.insert(0, "/verif")
from checks import prims
r = prims.numpy_case(*{case!r})
if r: print("VIOLATED:", r); sys.exit(1)
print("property holds on this case"); sys.exit(0)
'''


def _layouts(dt):
    base = (np.arange(24) * 7 % 23 - 9).astype(dt)
    return {
        "1d": base[:5].copy(),
        "2d_C": base.reshape(4, 6).copy(),
        "2d_F": np.asfortranarray(base.reshape(4, 6)),
        "2d_T": base.reshape(6, 4).T,
        "strided": base[1::3],
        "3d_perm": base.reshape(2, 3, 4).transpose(1, 2, 0),
        "empty": base[:0],
        "0d": base[3:4].reshape(()),
        # the same numbers stored in the other byte order (files and memory maps of big-endian data; M11-C13): the VALUES
        # are what is transferred, in the destination dtype's native representation
        "1d_swapped": base[:5].astype(np.dtype(dt).newbyteorder("S")),
        "2d_T_swapped": base.reshape(6, 4).astype(np.dtype(dt).newbyteorder("S")).T,
    }


def numpy_case(kind, sdt, ddt, lay, off):
    """one concrete case of the NumPy half of C13 (auxiliary, no solver): returns a message or None"""
    K = dict(BufferNumpy=BufferNumpy, BufferByteArray=BufferByteArray)
    a = _layouts(sdt)[lay]
    want = a.astype(ddt).flatten().tobytes()  # elements in index (C) order, converted to the destination dtype
    cap = off + len(want) + 5
    b = K[kind](capacity=cap, context=xcpu.ContextCpu())
    for k in range(cap):
        b.buffer[k] = (k * 7 + 3) % 120 + 1
    pre = bytes(bytearray(b.buffer))
    try:
        b.update_from_nplike(off, np.dtype(ddt), a)
    except Exception as ex:  # noqa
        return f"update_from_nplike({kind}, {sdt}->{ddt}, layout {lay}, offset {off}) raised {type(ex).__name__}: {str(ex)[:80]}"
    post = bytes(bytearray(b.buffer))
    if post != pre[:off] + want + pre[off + len(want):]:
        return f"update_from_nplike({kind}, {sdt}->{ddt}, layout {lay}, offset {off}): the buffer does not hold the converted elements at the offset / other bytes changed"
    if sdt == ddt and a.size:
        # typed view: aliases exactly the bytes it covers
        isz = np.dtype(ddt).itemsize
        for meth in ("to_nplike", "to_nparray"):
            v = getattr(b, meth)(off, np.dtype(ddt), a.shape if a.ndim else (1,))
            if v.tobytes() != bytes(bytearray(b.buffer))[off : off + len(want)]:
                return f"{meth}({kind}, {ddt}, shape {a.shape}, offset {off}) does not show the bytes at the offset"
            before = bytes(bytearray(b.buffer))
            flat = v.reshape(-1)
            flat[-1] = 7
            after = bytes(bytearray(b.buffer))
            lo = off + (a.size - 1) * isz
            if after[:lo] != before[:lo] or after[lo + isz:] != before[lo + isz:] or after[lo:lo + isz] != np.array(7, dtype=ddt).tobytes():
                return f"{meth}({kind}, {ddt}, shape {a.shape}, offset {off}): a write through the view does not change exactly that element's bytes in the buffer"
    return None


def numpy_concrete(tr):
    cases = []
    offs = (0, 3) if tr == "quick" else (0, 1, 3, 8, 13)
    for kind in ("BufferNumpy", "BufferByteArray"):
        for i, sdt in enumerate(DTYPES):
            for j, ddt in enumerate(DTYPES):
                if tr == "quick" and not (sdt == ddt or (i + j) % 3 == 0):
                    continue
                for li, lay in enumerate(("1d", "2d_C", "2d_F", "2d_T", "strided", "3d_perm", "empty", "0d", "1d_swapped", "2d_T_swapped")):
                    if tr == "quick" and (i + j + li) % 2 and not (lay == "1d_swapped" and sdt == ddt):
                        continue
                    for off in offs:
                        cases.append((kind, sdt, ddt, lay, off))
    return cases


def _np_case(c):
    import warnings

    with warnings.catch_warnings():
        warnings.simplefilter("ignore")
        return numpy_case(*c)


def main(pid):
    tr = tier()
    rep = Report(pid, "model_checking", tr, technique="symbolic execution of the real slice-arithmetic primitives of BufferNumpy/BufferByteArray on a symbolic byte-container model (length and content symbolic); Skolem-position postcondition discharged by z3")
    jobs = []
    for kind in ("BufferNumpy", "BufferByteArray"):
        jobs += [("update_from_native", kind, "other"), ("update_from_native", kind, "self"), ("copy_to_native", kind, "-"), ("update_from_buffer", kind, "-"), ("to_native", kind, "-"), ("to_bytearray", kind, "-"), ("to_pointer_arg", kind, "-")]
        jobs += [("update_from_native", kind, "other+grown"), ("copy_to_native", kind, "-+grown"), ("update_from_buffer", kind, "-+grown"), ("to_native", kind, "-+grown"), ("to_bytearray", kind, "-+grown"), ("update_from_xbuffer", kind, "same_context+grown")]
        jobs += [("update_from_buffer", kind, f"memoryview/{k}") for k in (2, 4, 8)]
        jobs += [("update_from_xbuffer", kind, v) for v in ("same_context", "same_context_other_kind", "other_context_same_kind", "other_context_other_kind")]
        # the NumPy half: offset/length arithmetic for every count and shape (conversion itself is stub S16)
        pairs = [("float64", "float64"), ("int16", "int16"), ("int32", "float64"), ("float64", "int8"), ("uint8", "uint64")]
        if tr == "thorough":
            pairs += [(a, b) for a in DTYPES for b in DTYPES if (a, b) not in pairs]
        jobs += [("update_from_nplike", kind, f"{a}->{b}") for a, b in pairs]
        for meth in ("to_nplike", "to_nparray"):
            jobs += [(meth, kind, f"{dt}/{nd}") for dt, nd in (("float64", 1), ("int16", 2), ("int8", 3), ("uint32", 1))]
            if tr == "thorough":
                jobs += [(meth, kind, f"{dt}/{nd}") for dt in DTYPES for nd in (1, 2, 3) if (dt, nd) not in (("float64", 1), ("int16", 2), ("int8", 3), ("uint32", 1))]
    results = run_parallel(harness, jobs)
    for cfg, res in zip(jobs, results):
        rep.add_engine_result(res)
        for cex in res["cexs"]:
            sig = f"{cfg[0]}:{cex['obligation'].split(':')[-1].strip()[:60]}"
            model = cex.get("detail") or cex.get("model")
            rep.candidate(sig, f"{res['name']}: {cex['obligation']} with {json.dumps(model)}", REPLAY.format(case=repr({"cfg": list(cfg), "model": model})))
    # auxiliary, concrete: the byte primitives on real buffers, fresh and after a growth
    bcases = bytes_concrete(jobs)
    bres = run_parallel(_byte_case, bcases)
    for c, r in zip(bcases, bres):
        if r:
            rep.candidate(f"bytes:{c['cfg'][0]}:{'grown' if c['cfg'][2].endswith('+grown') else 'fresh'}:{r.split(':')[0][:50]}", f"{c['cfg']}: {r} with {json.dumps(c['model'])} (concrete observation on the real buffers, no solver verdict)", REPLAY.format(case=repr(c)))
    rep.validated += len(bcases)
    rep.extra["byte_primitive_concrete_cases"] = len(bcases)
    # auxiliary, concrete: dtype conversion and source layouts of the NumPy half on the real buffers
    ncases = numpy_concrete(tr)
    nres = run_parallel(_np_case, ncases)
    for c, r in zip(ncases, nres):
        if r:
            rep.candidate(f"numpy:{c[0]}:{c[3]}:{'same' if c[1] == c[2] else 'convert'}", r + " (concrete observation, no solver verdict)", NP_REPLAY.format(case=tuple(c)))
    rep.validated += len(ncases)
    rep.extra["numpy_concrete_cases"] = len(ncases)
    nval, bad, msgs = validate_model()
    rep.validated += nval
    rep.extra["model_validation_cases"] = nval
    if bad:
        rep.harness_error(f"container model S6 disagrees with the real bytearray/ndarray on {bad} of {nval} cases: {msgs}")
    for k in (BufferNumpy, BufferByteArray):
        for meth in ("update_from_native", "copy_to_native", "to_native", "update_from_buffer", "to_bytearray", "to_pointer_arg", "update_from_nplike", "to_nplike"):
            rep.add_function(getattr(k, meth))
    rep.add_function(xctx.XBuffer.update_from_xbuffer)
    rep.bounds = {
        "capacity, offsets, lengths": "unbounded integers in [0, 2^62) (solver); content uninterpreted",
        "precondition": "ranges inside both containers (the documented caller contract)",
        "primitives": sorted(set(j[0] for j in jobs)),
        "numpy_half": "SOLVER: element count, every dimension of the requested shape (<= 3 axes), offset, capacity; ENUMERATED: (source dtype, destination dtype) pairs and view dtypes (5+4 quick, all 100+30 thorough). The conversion and the element order of the source are stub S16 (opaque content); they are observed concretely on the real buffers: %d cases over 10x10 dtype pairs x 10 source layouts (C, Fortran, transposed, strided, permuted 3-D, empty, 0-d, non-native byte order 1-D and transposed) x offsets, incl. aliasing of the typed views" % len(ncases),
        "outside_claim": ["the values NumPy produces when converting between dtypes", "GPU buffers", "ranges outside the containers"],
    }
    rep.assumptions = ["S6: bytearray / 1-D int8 ndarray slice semantics as modelled by SymBytes (validated this run against the real containers on %d small cases)" % nval, "len/bytearray inside xobjects.context_cpu are replaced by versions that accept the model"]
    rep.assumptions.append("S16: a NumPy array is (concrete dtype, symbolic element count, opaque content); astype gives an array of the same count in the other dtype, flatten its elements in index order, view('int8')/.data its count*itemsize bytes; np.frombuffer(storage, dtype, count, offset) is a typed window that raises unless it fits; np.prod multiplies proxies")
    rep.stubs = ["S6", "S16"]
    rep.extra["partial"] = "the offset/length arithmetic of every primitive is decided by the solver; NumPy's conversion and layout handling is observed concretely (auxiliary)"
    return rep.finish()
