"""Write-side checks (mode W of DESIGN.md): C01, C03, C05, C06, C08, C09, C10, C11.

Objects are built, read, written and copied through the *real* constructors and
accessors on buffers whose placement is symbolic (vx.symbuf): capacity, free
list, explicit offsets, growth amounts and prior contents are solver
variables, so an obligation that is discharged holds for every placement on
the path.  Types, shapes and values are enumerated (bounded catalogue).

Every scenario is written once against `vx.wenv.Env` and runs in two worlds:
symbolically (the verdict) and concretely on real CPU buffers (replay of a
counterexample; validation of the storage model against the real primitives).
"""
import itertools
import json
import os
import sys
import traceback

import numpy as np

from vx import typegen as tg, values as V
from vx.layoutspec import Decoder, DecodeError, static_size
from vx.wenv import ConcEnv, PoisonRead, is_symbolic

import xobjects as xo

try:
    import z3
    from vx import symx, symbuf
    from vx.symx import Engine, T
    from vx.wenv import SymEnv
except Exception:  # pragma: no cover
    z3 = None

NEIGHBOUR = xo.Int64[:]
NB_L = [0x1111111111111111, -2, 0x0123456789ABCDEF]
NB_R = [7, -(2**63), 2**63 - 1]


# --------------------------------------------------------------------------
# placement
def make_buffer(env, cfg, tag=""):
    pl = cfg["placement"]
    a = cfg.get("alignment", 1)
    if pl == "grown":
        return env.fresh(0, tag=tag, alignment=a, grow_step=cfg.get("grow_step"))
    return env.buffer(tag=tag, N=cfg.get("N", 1), alignment=a, grow_step=cfg.get("grow_step"), roomy=cfg.get("roomy"))


def place_kwargs(env, cfg, buf, size_hint, tag=""):
    pl = cfg["placement"]
    if pl in ("default", "grown"):
        return dict(_buffer=buf)
    if pl in ("packed", "aligned"):
        return dict(_buffer=buf, _offset=pl)
    if pl == "explicit":
        base = env.int("base" + tag, 0)
        env.reserve(buf, base, size_hint)
        return dict(_buffer=buf, _offset=base)
    raise ValueError(pl)


def planned_size(t, v):
    cls = tg.build(t)
    if t[0] == "uref":
        return 16
    if t[0] == "struct":
        return cls._inspect_args(v).size
    return cls._inspect_args(v).size


class Built:
    pass


def construct(env, t, v, cfg, with_neighbours=True, tag=""):
    """buffer + (optional) left neighbour + object + (optional) right neighbour"""
    B = Built()
    B.t, B.v, B.cfg = t, v, cfg
    B.exp = cfg["raw_expected"] if "raw_expected" in cfg else V.expected(t, v)
    if cfg["placement"] == "context":
        ctx = env.context()
        B.buf = None
        B.nbL = B.nbR = None
        B.mark = env.mark()
        B.obj = V.make(t, V.to_form(t, v, cfg.get("form", "python")), _context=ctx)
        B.buf = B.obj._buffer
        B.mark_after = env.mark()
        return B
    B.buf = make_buffer(env, cfg, tag)
    vin = V.to_form(t, v, cfg.get("form", "python"))
    if cfg.get("form") == "omit" and t[0] == "struct":
        # static scalar fields left out of the constructor call take their default (zero)
        vin = {fn: vin[fn] for fn, ft in t[2] if ft[0] != "scalar"}
        B.exp = {fn: (V.expected(ft, tg.DEFAULTS.get((t[1], fn), 0)) if ft[0] == "scalar" else B.exp[fn]) for fn, ft in t[2]}
    # an explicit region is reserved while the free list is still pristine: it is then disjoint
    # from everything allocated later (the neighbours, reference targets)
    kw = place_kwargs(env, cfg, B.buf, planned_size(t, vin) + 64, tag)
    B.nbL = NEIGHBOUR(NB_L, _buffer=B.buf) if with_neighbours else None
    B.mark = env.mark()
    B.obj = V.make(t, vin, form=cfg.get("form"), **kw)
    B.mark_after = env.mark()
    B.nbR = NEIGHBOUR(NB_R, _buffer=B.buf) if with_neighbours else None
    return B


def neighbours_intact(env, B, when):
    ok = True
    if B.nbL is not None:
        ok = env.check([int(x) for x in B.nbL] == NB_L, f"left neighbour unchanged {when}") and ok
    if B.nbR is not None:
        ok = env.check([int(x) for x in B.nbR] == NB_R, f"right neighbour unchanged {when}") and ok
    return ok


def own_size(t, obj):
    if t[0] == "uref":
        return 16
    return obj._size


def read_ok(env, t, obj, exp, what):
    try:
        got = V.read_top(t, obj)
    except BaseException as ex:
        if not isinstance(ex, Exception):
            raise
        return env.check(False, f"{what}: reading back raised {type(ex).__name__}: {str(ex)[:80]}")
    d = V.diff(got, exp)
    return env.check(d is None, f"{what}: {d}" if d else what)


def to_list(arr):
    return arr.tolist()


def nplike_ok(env, t, obj, exp, what):
    """Array.to_nplike()/to_nparray() of arrays of scalars"""
    if t[0] != "array" or t[1][0] != "scalar":
        return True
    ok = True
    for meth in ("to_nplike", "to_nparray"):
        try:
            arr = getattr(obj, meth)()
            got = arr.tolist()
            shape_ok = list(arr.shape) == [int(s) for s in obj._shape]
        except BaseException as ex:
            if not isinstance(ex, Exception):
                raise
            ok = env.check(False, f"{what} to_nplike()/to_nparray() work on arrays of scalars: {meth}() raised {type(ex).__name__}: {str(ex)[:80]}") and ok
            continue
        d = V.diff(got, exp) if len(exp) and all(int(s) > 0 for s in obj._shape) else None
        ok = env.check(d is None and shape_ok, f"{what} to_nplike()/to_nparray() return the array's values indexed like the array ({meth}: {d})") and ok
        if meth == "to_nplike" and arr.size > 0 and d is None:
            # a typed array view ALIASES the buffer bytes (symbolic buffers: write-back views, stub S14)
            idx0 = tuple(0 for _ in arr.shape)
            old = arr[idx0]
            new = other_scalar(t[1], old.item(), 1)
            try:
                arr[idx0] = new
                seen = obj[idx0 if len(idx0) > 1 else idx0[0]]
                ok = env.check(V.same(V.readback(t[1], seen), V.expected(t[1], new)), f"{what} a write through the typed array view of to_nplike() reaches the buffer (the view aliases the bytes it covers), whatever the object's offset") and ok
                arr[idx0] = old
                obj[idx0 if len(idx0) > 1 else idx0[0]] = old
            except ValueError:
                pass  # read-only views are not claimed
    return ok


# --------------------------------------------------------------------------
# C01
def sc_c01(env, t, v, cfg):
    p0 = env.poison_reads()
    B = construct(env, t, v, cfg)
    read_ok(env, t, B.obj, B.exp, "C01 values written at construction are read back exactly")
    nplike_ok(env, t, B.obj, B.exp, "C01")
    env.check(env.poison_reads() == p0, "C01 every byte read back was written by the constructor (no prior buffer content shows through)")
    neighbours_intact(env, B, "by construction")
    env.reach()


def sc_c01_xobject(env, t, v, cfg):
    """initial value supplied as another xobject (living in a different, fresh buffer)"""
    src_buf = env.fresh(4096, tag="src")
    src = V.make(t, v, _buffer=src_buf)
    B = Built()
    B.t = t
    B.buf = make_buffer(env, cfg)
    kw = place_kwargs(env, cfg, B.buf, own_size(t, src) + 64)
    B.nbL = NEIGHBOUR(NB_L, _buffer=B.buf)
    p0 = env.poison_reads()
    cls = tg.build(t)
    B.obj = cls(src.get(), **kw) if t[0] == "uref" else cls(src, **kw)
    B.nbR = NEIGHBOUR(NB_R, _buffer=B.buf)
    read_ok(env, t, B.obj, V.expected(t, v), "C01 object built from another xobject reads back the source's value")
    env.check(env.poison_reads() == p0, "C01 (xobject form) no prior buffer content shows through")
    neighbours_intact(env, B, "by construction from an xobject")
    env.reach()


def capacity_form(t, v):
    """replace every string leaf of the sample by a capacity (expected read-back: '')"""
    k = t[0]
    if k == "string":
        return len(v.encode()) + 3, ""
    if k == "struct":
        a, b = {}, {}
        for fn, ft in t[2]:
            a[fn], b[fn] = capacity_form(ft, v[fn])
        return a, b
    if k == "array":
        nd = len(t[2])

        def rec(x, lvl):
            if lvl == nd:
                return capacity_form(t[1], x)
            pairs = [rec(y, lvl + 1) for y in x]
            return [p[0] for p in pairs], [p[1] for p in pairs]

        return rec(v, 0)
    if k == "ref" and v is not None:
        return capacity_form(t[1], v)
    if k == "uref" and v is not None:
        name, data = v
        m = [m for m in t[2] if tg.build(m).__name__ == name][0]
        a, b = capacity_form(m, data)
        return (name, a), (name, b)
    return v, (V.expected(t, v) if v is not None else None)


def has_string(t):
    k = t[0]
    if k == "string":
        return True
    if k == "struct":
        return any(has_string(ft) for _, ft in t[2])
    if k == "array":
        return has_string(t[1])
    if k == "ref":
        return has_string(t[1])
    if k == "uref":
        return any(has_string(m) for m in t[2])
    return False


def sc_c01_capacity(env, t, v, cfg):
    vin, exp = capacity_form(t, v)
    B = construct(env, t, vin, dict(cfg, raw_expected=exp))
    read_ok(env, t, B.obj, exp, "C01 strings created from a capacity read back as the empty string, everything else exactly")
    neighbours_intact(env, B, "by construction with capacities")
    env.reach()


# --------------------------------------------------------------------------
# C05 -- independent decoder over the raw bytes
def decoded_expected(t, exp):
    """expected value in the decoder's vocabulary (union members by index)"""
    k = t[0]
    if k == "struct":
        return {fn: decoded_expected(ft, exp[fn]) for fn, ft in t[2]}
    if k == "array":
        nd = len(t[2])

        def rec(x, lvl):
            if lvl == nd:
                return decoded_expected(t[1], x)
            return [rec(y, lvl + 1) for y in x]

        return rec(exp, 0)
    if k == "ref":
        return None if exp is None else decoded_expected(t[1], exp)
    if k == "uref":
        if exp is None:
            return None
        name, data = exp
        for i, m in enumerate(t[2]):
            if tg.build(m).__name__ == name:
                return (i, decoded_expected(m, data))
    return exp


def sc_c05(env, t, v, cfg):
    if cfg.get("capform"):
        v, exp = capacity_form(t, v)
        cfg = dict(cfg, raw_expected=exp)
    B = construct(env, t, v, cfg, with_neighbours=False)
    dec = Decoder(env.raw(B.buf))
    try:
        got = dec.decode(t, B.obj._offset)
    except (DecodeError, PoisonRead, UnicodeDecodeError) as ex:
        env.check(False, f"C05 the bytes do not decode under the documented layout: {type(ex).__name__}: {str(ex)[:100]}")
        env.reach()
        return
    d = V.diff(got, decoded_expected(t, B.exp))
    env.check(d is None, f"C05 a decoder written from the layout description recovers the written value ({d})")
    for path, off, parent in dec.parts:
        rel = off - parent
        env.check(env.eq(rel % 8, 0), f"C05 every part starts on a slot boundary relative to its object ({path})")
    env.reach()


# --------------------------------------------------------------------------
# C03 -- frame conditions and extents
def child_extent(env, buf, ct, coff):
    s = static_size(ct)
    if s is not None:
        return s
    return xo.Int64._from_buffer(buf, coff)


def structure_ok(env, B):
    """every nested part inside its parent, siblings disjoint (through the library's own offsets)"""
    t, v, obj = B.t, B.v, B.obj
    for path, ct, cv in V.compounds(t, v):
        node = V.get_at(t, obj, path)
        if node is None:
            continue
        buf = node._buffer
        poff = node._offset
        psize = child_extent(env, buf, ct, poff)
        kids = []
        if ct[0] == "struct":
            for fn, ft in ct[2]:
                coff = node._get_offset(fn)
                kids.append((fn, ft, coff))
        else:
            for idx in itertools.product(*[range(int(d)) for d in node._shape]):
                kids.append((idx, ct[1], node._get_offset(idx)))
        exts = []
        for name, kt, coff in kids:
            ks = child_extent(env, buf, kt, coff)
            exts.append((name, coff, ks))
            env.check(
                sand(env, sle(env, poff, coff), sle(env, coff + ks, poff + psize)),
                f"C03 nested part lies inside its parent ({path}/{name})",
            )
        for (n1, o1, s1), (n2, o2, s2) in itertools.combinations(exts, 2):
            env.check(sor(env, sle(env, o1 + s1, o2), sle(env, o2 + s2, o1)), f"C03 sibling parts do not overlap ({path}: {n1} vs {n2})")


def sle(env, a, b):
    if is_symbolic(a) or is_symbolic(b):
        return symx.mkb(T(a) <= T(b))
    return a <= b


def sand(env, a, b):
    if is_symbolic(a) or is_symbolic(b):
        return symx.mkb(z3.And(symx.B(a), symx.B(b)))
    return a and b


def sor(env, a, b):
    if is_symbolic(a) or is_symbolic(b):
        return symx.mkb(z3.Or(symx.B(a), symx.B(b)))
    return a or b


def other_scalar(lt, lv, k=1):
    ex = V.EXTREMES[lt[1]]
    for cand in ex[k % len(ex) :] + ex:
        if not V.same(V.expected(lt, cand), V.expected(lt, lv)):
            return cand
    return ex[0]


def other_string(lv, k=1):
    """a different string that fits the space of `lv`: same byte length (k%3==1), much shorter
    (k%3==2, ends in an earlier slot), or empty (k%3==0)"""
    n = len(lv.encode())
    if k % 3 == 2:
        n = max(1, n // 5) if n > 1 else 0
    elif k % 3 == 0:
        n = 0
    return "".join(chr(ord("b") + (i * 3 + k) % 20) for i in range(n)) if n else ""


def fitting_value(lt, lv, k=1):
    if lt[0] == "scalar":
        return other_scalar(lt, lv, k)
    if lt[0] == "string":
        return other_string(lv, k)
    return None


def sc_c03(env, t, v, cfg):
    B = construct(env, t, v, cfg)
    obj, buf = B.obj, B.buf
    size = own_size(t, obj)
    own = [(buf, obj._offset, size)]
    env.frame(B.mark, own if cfg["placement"] == "explicit" else [], "C03 construction writes only inside the object's extent and the extents of objects it creates for its references")
    # the extent the object reports is the extent it was given
    if cfg["placement"] != "explicit":
        regs = [(b, o, s) for (b, o, s) in env.regions_since(B.mark) if b is buf]
        mine = [r for r in regs[: len(regs) - 0] if r is not None]
        if mine:
            # the object's own allocation is the one whose offset is the object's offset
            env.check(
                sor_list(env, [sand(env, env.eq(o, obj._offset), env.eq(s, size)) for _, o, s in mine]),
                "C03 the size the object reports equals the extent reserved for it",
            )
    if hasattr(obj, "_get_size") and t[0] != "uref":
        env.check(env.eq(obj._get_size(), size), "C03 size recorded in the buffer equals the size the handle reports")
    structure_ok(env, B)
    neighbours_intact(env, B, "by construction")
    # fitting assignments through the handle: only the object and its reference targets change
    targets = [r for r in env.regions_since(B.mark)]
    n = 0
    for path, lt, lv in V.leaves(t, v):
        nv = fitting_value(lt, lv)
        if nv is None or not path:
            continue
        n += 1
        if n > cfg.get("max_assign", 6):
            break
        m = env.mark()
        try:
            V.set_at(t, obj, path, nv)
        except BaseException as ex:
            if not isinstance(ex, Exception):
                raise
            env.check(False, f"C03 fitting assignment at {path} raised {type(ex).__name__}: {str(ex)[:80]}")
            continue
        env.frame(m, own + targets, f"C03 a fitting assignment writes only inside the object (and its reference targets) (leaf {path})")
    neighbours_intact(env, B, "by fitting assignments")
    # a String OBJECT whose text fits but whose own capacity is far larger than the space of the target: either outcome
    # a conforming library may choose -- refusal with nothing written, or success -- must stay inside the object
    k = 0
    for path, lt, lv in V.leaves(t, v):
        if lt[0] != "string" or not path or behind_ref(t, v, path):
            continue
        k += 1
        if k > 2:
            break
        big = xo.String(len(lv.encode()) + 48, _buffer=env.fresh(512, tag=f"s{k}"))
        m = env.mark()
        accepted = True
        try:
            V.set_at(t, obj, path, big)
        except BaseException as ex:
            if not isinstance(ex, Exception):
                raise
            accepted = False
        if accepted:
            env.frame(m, own + targets, f"C03 assigning a String object of larger capacity (empty text) writes only inside the object (leaf {path})")
            got = V.get_at(t, obj, path)
            env.check(got == "", f"C03 the accepted String object assignment stores its text (leaf {path})")
            exp_now = None
        else:
            env.no_stores_since(m, f"C03 a refused String object assignment writes nothing (leaf {path})")
        neighbours_intact(env, B, "by the assignment of a String object of larger capacity")
    env.reach()


def sor_list(env, xs):
    r = False
    for x in xs:
        r = sor(env, r, x)
    return r


# --------------------------------------------------------------------------
# C06 -- rebuilt view == handle
def meta_of(x):
    d = {}
    for a in ("_size", "_shape", "_strides"):
        if hasattr(x, a):
            val = getattr(x, a)
            d[a] = [int(q) if not is_symbolic(q) else q for q in val] if isinstance(val, (list, tuple)) else val
    return d


def meta_equal(env, a, b, what):
    ma, mb = meta_of(a), meta_of(b)
    ok = env.check(ma.keys() == mb.keys(), f"{what}: same structural attributes")
    for k in ma:
        if k not in mb:
            continue
        x, y = ma[k], mb[k]
        if isinstance(x, list):
            ok = env.check(len(x) == len(y) and all(bool(env.eq(p, q)) is True or _is_true(env.eq(p, q)) for p, q in zip(x, y)), f"{what}: {k} equal ({x} vs {y})") and ok
        else:
            ok = env.check(env.eq(x, y), f"{what}: {k} equal") and ok
    return ok


def _is_true(x):
    return x is True


def sc_c06(env, t, v, cfg):
    B = construct(env, t, v, cfg)
    obj = B.obj
    if t[0] == "uref":
        handle = obj
        view = tg.build(t)._from_buffer(obj._buffer, obj._offset)  # the member view
        hv = obj.get()
        env.check((hv is None) == (view is None), "C06 union: view and handle agree on null")
        if hv is not None:
            env.check(env.eq(hv._offset, view._offset), "C06 union: rebuilt member view sits at the member's offset")
        env.reach()
        return
    cls = tg.build(t)
    try:
        view = cls._from_buffer(obj._buffer, obj._offset)
    except BaseException as ex:
        if not isinstance(ex, Exception):
            raise
        env.check(False, f"C06 rebuilding a view raised {type(ex).__name__}: {str(ex)[:80]}")
        env.reach()
        return
    read_ok(env, t, view, B.exp, "C06 view rebuilt from (buffer, offset) returns the handle's values")
    # every nesting level: compound reached through the handle vs through the view
    for path, ct, cv in V.compounds(t, v):
        try:
            a = V.get_at(t, obj, path)
            b = V.get_at(t, view, path)
        except BaseException as ex:
            if not isinstance(ex, Exception):
                raise
            env.check(False, f"C06 nested access {path} raised {type(ex).__name__}: {str(ex)[:80]}")
            continue
        if a is None or b is None:
            env.check(a is None and b is None, f"C06 handle and view agree on null at {path}")
            continue
        env.check(env.eq(a._offset, b._offset), f"C06 same offset through handle and view at {path}")
        meta_equal(env, a, b, f"C06 {path or 'root'}")
        if ct[0] == "array":
            for idx in itertools.product(*[range(int(d)) for d in a._shape]):
                try:
                    oa, ob = a._get_offset(idx), b._get_offset(idx)
                except BaseException as ex:
                    if not isinstance(ex, Exception):
                        raise
                    env.check(False, f"C06 item offset {idx} at {path} raised {type(ex).__name__}: {str(ex)[:60]}")
                    break
                env.check(env.eq(oa, ob), f"C06 item {idx} at the same address through handle and view ({path})")
        elif ct[0] == "struct":
            for fn, ft in ct[2]:
                env.check(env.eq(a._get_offset(fn), b._get_offset(fn)), f"C06 field {fn} at the same address through handle and view ({path})")
    # a write through either is seen through the other
    lv = [(p, lt, x) for p, lt, x in V.leaves(t, v) if p and fitting_value(lt, x) is not None]
    picks = [lv[0], lv[-1]] if len(lv) > 1 else lv
    exp = B.exp
    for k, (path, lt, x) in enumerate(picks):
        nv = fitting_value(lt, x, k + 1)
        w, r = (obj, view) if k % 2 == 0 else (view, obj)
        try:
            V.set_at(t, w, path, nv)
        except BaseException as ex:
            if not isinstance(ex, Exception):
                raise
            env.check(False, f"C06 write at {path} raised {type(ex).__name__}: {str(ex)[:80]}")
            continue
        exp = V.replace_at(t, exp, path, V.expected(lt, nv))
        read_ok(env, t, r, exp, f"C06 a write through the {'handle' if w is obj else 'view'} is seen through the other ({path})")
    # a whole array of strings rewritten, through either, from an INSTANCE of its class that has the same shape and the
    # same total size but splits its bytes differently among the items (the texts rotated, then shortened in place so
    # that every item fits the slot it goes to): the other one must see the new items (M11-C06: a handle keeps the
    # item-offset table it computed at construction)
    k = 0
    for path, ct, cv in V.compounds(t, v):
        if ct[0] != "array" or ct[1][0] != "string" or len(ct[2]) != 1 or cv is None or len(cv) < 2:
            continue
        if path and (V.type_at(t, v, path)[0][0] in ("ref", "uref") or behind_ref(t, v, path)):
            continue
        try:
            src = tg.build(ct)(list(cv[1:]) + list(cv[:1]), _buffer=B.buf)
            newv = [f"c{i}" for i in range(len(cv))]
            for i, x in enumerate(newv):
                src[i] = x
            w, r = (obj, view) if k % 2 == 0 else (view, obj)
            node = V.get_at(t, w, path) if path else w
            node._update(src)
        except BaseException as ex:
            if not isinstance(ex, Exception):
                raise
            continue  # whether such a value is accepted is C10's / C11's question, not C06's: no verdict here
        exp = V.replace_at(t, exp, path, V.expected(ct, newv)) if path else V.expected(ct, newv)
        read_ok(env, t, r, exp, f"C06 a string array rewritten through the {'handle' if w is obj else 'view'} from an instance with another item split is seen through the other ({path or 'root'})")
        read_ok(env, t, w, exp, f"C06 a string array rewritten through the {'handle' if w is obj else 'view'} from an instance with another item split reads back through the same one ({path or 'root'})")
        k += 1
        if k >= 2:
            break
    env.reach()


# --------------------------------------------------------------------------
# C09 -- copy construction
def ref_slots(t, v, path=()):
    """paths of reference-typed fields/items with their (type, value)"""
    k = t[0]
    if k == "struct":
        for fn, ft in t[2]:
            yield from ref_slots(ft, v[fn], path + (("f", fn),))
    elif k == "array":
        dims = V.dims_of(t, v)
        for idx in itertools.product(*[range(d) for d in dims]):
            x = v
            for i in idx:
                x = x[i]
            yield from ref_slots(t[1], x, path + (("i", idx),))
    elif k in ("ref", "uref"):
        yield path, t, v
        if v is not None:
            inner_t, inner_v = (t[1], v) if k == "ref" else ([m for m in t[2] if tg.build(m).__name__ == v[0]][0], v[1])
            yield from ref_slots(inner_t, inner_v, path)


def behind_ref(t, v, path):
    """does `path` pass through a reference?"""
    cur_t, cur_v = t, v
    if cur_t[0] in ("ref", "uref"):
        return True
    for st in path:
        if st[0] == "f":
            cur_t, cur_v = dict(cur_t[2])[st[1]], cur_v[st[1]]
        else:
            for i in st[1]:
                cur_v = cur_v[i]
            cur_t = cur_t[1]
        if cur_t[0] in ("ref", "uref"):
            return True
    return False


def sc_c09(env, t, v, cfg):
    where = cfg["copy_to"]
    B = construct(env, t, v, cfg)
    src = B.obj
    cls = tg.build(t)
    arg = src.get() if t[0] == "uref" else src
    if t[0] == "uref" and arg is None:
        env.reach()
        return
    if cfg.get("src") == "view" and t[0] != "uref":
        # the source is a view rebuilt from (buffer, offset), as every nested field / item / reference target is
        arg = cls._from_buffer(src._buffer, src._offset)
    shortened = False
    if cfg.get("src") == "shortened":
        # the source has a history: texts shortened in place (their space stays what it was at creation)
        k = 0
        for path, lt, x in V.leaves(t, v):
            if lt[0] != "string" or not path or behind_ref(t, v, path[:-1]):
                continue
            k += 1
            nv = other_string(x, 2 if k % 2 else 3)  # much shorter / empty
            if nv == x:
                continue
            V.set_at(t, src, path, nv)
            B.exp = V.replace_at(t, B.exp, path, V.expected(lt, nv))
            v = V.replace_at(t, v, path, nv)
            shortened = True
    m = env.mark()
    try:
        if where == "same":
            dst_buf = B.buf
            cp = cls(arg, _buffer=dst_buf)
        elif where == "other":
            dst_buf = env.buffer(tag="d", N=cfg.get("N", 1), alignment=cfg.get("alignment", 1), ctx=B.buf.context, roomy=cfg.get("roomy"))
            cp = cls(arg, _buffer=dst_buf)
        else:  # another context
            ctx2 = env.context("c2")
            cp = cls(arg, _context=ctx2)
            dst_buf = cp._buffer
    except BaseException as ex:
        if not isinstance(ex, Exception):
            raise
        env.check(False, f"C09 copy-construction ({where}) raised {type(ex).__name__}: {str(ex)[:80]}")
        env.reach()
        return
    read_ok(env, t, cp, B.exp, f"C09 copy ({where} buffer) equals the original")
    read_ok(env, t, src, B.exp, f"C09 original unchanged by copying ({where} buffer)")
    ssz, csz = own_size(t, src), own_size(t, cp)
    if not shortened:
        env.check(env.eq(ssz, csz), "C09 copy has the original's size")
    if where == "same":
        env.check(sor(env, sle(env, src._offset + ssz, cp._offset), sle(env, cp._offset + csz, src._offset)), "C09 storage of copy and original is disjoint")
    else:
        env.check(cp._buffer is not src._buffer and cp._buffer is dst_buf, "C09 copy lives in the requested buffer")
    # references inside the copy
    new_regions = env.regions_since(m)
    for path, rt, rv in ref_slots(t, v):
        if t[0] == "uref" and not path:
            a, b = src.get(), cp.get()
        else:
            a, b = V.get_at(t, src, path), V.get_at(t, cp, path)
        if rv is None:
            env.check(a is None and b is None, f"C09 null reference stays null in the copy ({path})")
            continue
        if a is None or b is None:
            env.check(False, f"C09 non-null reference reads back as None ({path})")
            continue
        env.check(b._buffer is cp._buffer, f"C09 reference in the copy resolves inside the copy's own buffer ({path})")
        if where == "same":
            env.check(env.eq(a._offset, b._offset), f"C09 same buffer: the copy refers to the same referent ({path})")
        else:
            bs = own_size(("x",), b) if hasattr(b, "_size") else None
            inside = [sand(env, sle(env, o, b._offset), sle(env, b._offset + (bs if bs is not None else 1), o + s)) for (bb, o, s) in new_regions if bb is cp._buffer]
            env.check(sor_list(env, inside), f"C09 other buffer: the referent is duplicated into space allocated in the copy's buffer ({path})")
    # later writes never show through
    lv = [(p, lt, x) for p, lt, x in V.leaves(t, v) if p and fitting_value(lt, x) is not None and (where != "same" or not behind_ref(t, v, p))]
    picks = [lv[0], lv[-1]] if len(lv) > 1 else lv
    exp_src, exp_cp = B.exp, B.exp
    for k, (path, lt, x) in enumerate(picks):
        nv = fitting_value(lt, x, k + 1)
        target_is_copy = k % 2 == 0
        try:
            V.set_at(t, cp if target_is_copy else src, path, nv)
        except BaseException as ex:
            if not isinstance(ex, Exception):
                raise
            env.check(False, f"C09 write at {path} raised {type(ex).__name__}: {str(ex)[:80]}")
            continue
        if target_is_copy:
            exp_cp = V.replace_at(t, exp_cp, path, V.expected(lt, nv))
        else:
            exp_src = V.replace_at(t, exp_src, path, V.expected(lt, nv))
        read_ok(env, t, src, exp_src, f"C09 write to the {'copy' if target_is_copy else 'original'} at {path}: original as expected")
        read_ok(env, t, cp, exp_cp, f"C09 write to the {'copy' if target_is_copy else 'original'} at {path}: copy as expected")
    if where == "other" and t[0] != "uref":
        # a SECOND copy of the (meanwhile modified) original into the same destination buffer: it is a copy of the
        # original as it is now, and it shares nothing with the first copy (M10-C09: duplicates remembered per buffer)
        try:
            cp2 = cls(src if cfg.get("src") != "view" else cls._from_buffer(src._buffer, src._offset), _buffer=dst_buf)
        except BaseException as ex:
            if not isinstance(ex, Exception):
                raise
            env.check(False, f"C09 second copy-construction into the same buffer raised {type(ex).__name__}: {str(ex)[:80]}")
            cp2 = None
        if cp2 is not None:
            read_ok(env, t, cp2, exp_src, "C09 second copy into the same buffer equals the original as it is now")
            read_ok(env, t, cp, exp_cp, "C09 first copy unchanged by the second copy")
            c2sz = own_size(t, cp2)
            env.check(sor(env, sle(env, cp._offset + csz, cp2._offset), sle(env, cp2._offset + c2sz, cp._offset)), "C09 storage of the two copies is disjoint")
            for path, rt, rv in ref_slots(t, v):
                if rv is None:
                    continue
                b1, b2 = V.get_at(t, cp, path), V.get_at(t, cp2, path)
                if b1 is None or b2 is None or not hasattr(b1, "_size") or not hasattr(b2, "_size"):
                    continue
                s1, s2 = own_size(("x",), b1), own_size(("x",), b2)
                env.check(sor(env, sle(env, b1._offset + s1, b2._offset), sle(env, b2._offset + s2, b1._offset)) if (_is_true(s1 > 0) and _is_true(s2 > 0)) else True, f"C09 the two copies do not share a duplicated referent ({path})")
            # a write through the second copy does not show through the first
            if picks:
                path, lt, x = picks[-1]
                nv = fitting_value(lt, x, 3)
                try:
                    V.set_at(t, cp2, path, nv)
                    read_ok(env, t, cp, exp_cp, f"C09 write to the second copy at {path}: first copy as expected")
                    read_ok(env, t, cp2, V.replace_at(t, exp_src, path, V.expected(lt, nv)), f"C09 write to the second copy at {path}: second copy as expected")
                except BaseException as ex:
                    if not isinstance(ex, Exception):
                        raise
                    env.check(False, f"C09 write to the second copy at {path} raised {type(ex).__name__}: {str(ex)[:80]}")
    neighbours_intact(env, B, "by copying")
    env.reach()


def sc_c09_nested(env, t, v, cfg):
    """copy-construct from NESTED views: a field, an array item or a reference target of a live object is
    the source (that is how such parts are always materialised)"""
    B = construct(env, t, v, cfg)
    where = cfg["copy_to"]
    picks = [(p, ct, cv) for p, ct, cv in V.compounds(t, v) if p]
    picks = (picks[:1] + [q for q in picks if tg.has_ref(q[1])][:1] + picks[-1:])[:3]
    for path, ct, cv in picks:
        part = V.get_at(t, B.obj, path)
        if part is None:
            continue
        ccls = tg.build(ct)
        m = env.mark()
        try:
            if where == "same":
                cp = ccls(part, _buffer=B.buf)
            elif where == "other":
                cp = ccls(part, _buffer=env.buffer(tag="d" + str(len(path)), N=cfg.get("N", 1), alignment=cfg.get("alignment", 1), ctx=B.buf.context, roomy=cfg.get("roomy")))
            else:
                cp = ccls(part, _context=env.context("c2"))
        except BaseException as ex:
            if not isinstance(ex, Exception):
                raise
            env.check(False, f"C09 copy-construction from the nested part {path} ({where}) raised {type(ex).__name__}: {str(ex)[:80]}")
            continue
        exp = V.expected(ct, cv)
        read_ok(env, ct, cp, exp, f"C09 copy of the nested part {path} ({where} buffer) equals it")
        read_ok(env, t, B.obj, B.exp, f"C09 the enclosing object is unchanged by copying its part {path}")
        if where == "same":
            ps, cs = own_size(ct, part), own_size(ct, cp)
            env.check(sor(env, sle(env, part._offset + ps, cp._offset), sle(env, cp._offset + cs, part._offset)), f"C09 storage of the copy and of the nested part {path} is disjoint")
        for rpath, rt, rv in ref_slots(ct, cv):
            if not rpath or rv is None:
                continue
            a, b = V.get_at(ct, part, rpath), V.get_at(ct, cp, rpath)
            if a is None or b is None:
                env.check(False, f"C09 non-null reference reads back as None in the copy of {path} ({rpath})")
                continue
            env.check(b._buffer is cp._buffer, f"C09 reference in the copy of a nested part resolves inside the copy's buffer ({rpath})")
            if where == "same":
                env.check(env.eq(a._offset, b._offset), f"C09 same buffer: the copy of a nested part refers to the same referent ({rpath})")
    neighbours_intact(env, B, "by copying nested parts")
    env.reach()


# --------------------------------------------------------------------------
# C10 -- locality of assignment under histories
def shape_sig(t, obj):
    out = []
    for path, ct, cv in []:
        pass
    return out


def struct_sig(env, t, v, obj):
    """sizes, shapes and reference targets of every compound (for 'nothing else changed')"""
    sig = []
    for path, ct, cv in V.compounds(t, v):
        node = V.get_at(t, obj, path)
        if node is None:
            sig.append((path, None))
            continue
        sig.append((path, node._offset, meta_of(node)))
    return sig


def sig_equal(env, a, b, what):
    ok = len(a) == len(b)
    if ok:
        for x, y in zip(a, b):
            if x[0] != y[0] or (x[1] is None) != (y[1] is None):
                ok = False
                break
            if x[1] is None:
                continue
            if not _truthy(env.eq(x[1], y[1])):
                ok = False
                break
            mx, my = x[2], y[2]
            if mx.keys() != my.keys():
                ok = False
                break
            for k in mx:
                p, q = mx[k], my[k]
                if isinstance(p, list):
                    if len(p) != len(q) or not all(_truthy(env.eq(i, j)) for i, j in zip(p, q)):
                        ok = False
                else:
                    if not _truthy(env.eq(p, q)):
                        ok = False
    return env.check(ok, what)


def _truthy(x):
    if is_symbolic(x):
        return bool(x)
    return bool(x)


def redistributed(ct, cv, mode="setx"):
    """a value of the same type and the same planned size whose dynamic parts have other sizes, or None.
    Plain data ('setr') only for arrays of dynamic items (the array re-plans its items inside its fixed size);
    a struct given plain data updates field by field, where every nested part keeps its own fixed size, so a
    redistribution among struct fields is only a fitting value as an xobject of the struct type ('setx')."""
    if ct[0] == "array" and V.static_size_of(ct[1]) is None:
        dims = V.dims_of(ct, cv)
        if dims and dims[0] >= 2:
            nv = list(reversed(cv))
            if nv != list(cv):
                return nv if same_plan(ct, cv, nv) else None
        return None
    if mode == "setx" and tg.has_ref(ct) and ct[0] in ("struct", "array"):
        # reference-bearing compound: another value of the type (other referents), same planned size
        g = V.Gen(0, 2)
        g.c = itertools.count(41)
        nv = g.sample(ct)
        if ct[0] == "array" and V.dims_of(ct, nv) != V.dims_of(ct, cv):
            return None
        return nv if same_plan(ct, cv, nv) and not V.same(V.expected(ct, nv), V.expected(ct, cv)) else None
    if ct[0] == "struct" and mode == "setx":
        dyn = [(fn, ft) for fn, ft in ct[2] if V.static_size_of(ft) is None]
        for (f1, t1), (f2, t2) in itertools.combinations(dyn, 2):
            if t1 == t2 and cv[f1] != cv[f2]:
                nv = dict(cv)
                nv[f1], nv[f2] = cv[f2], cv[f1]
                return nv if same_plan(ct, cv, nv) else None
    return None


def same_plan(ct, a, b):
    try:
        c = tg.build(ct)
        return c._inspect_args(a).size == c._inspect_args(b).size
    except Exception:
        return False


def sc_c10(env, t, v, cfg):
    """history = cfg['history']: list of ('set', leaf#, via) | ('setc', compound#, via) | ('grow',)"""
    B = construct(env, t, v, cfg)
    obj = B.obj
    cls = tg.build(t)
    exp = B.exp
    cur_v = v
    sig0 = struct_sig(env, t, v, obj)
    lv = [(p, lt, x) for p, lt, x in V.leaves(t, v) if p and fitting_value(lt, x) is not None]
    # whole-compound assignment targets: non-reference slots only (assigning to a reference slot rebinds it: C08)
    comps = [(p, ct, cv) for p, ct, cv in V.compounds(t, v) if p and not tg.has_ref(ct) and V.type_at(t, v, p)[0][0] not in ("ref", "uref")]
    gi = 0
    for stepno, st in enumerate(cfg["history"]):
        via = obj
        if len(st) > 2 and st[2] == "view" and t[0] != "uref":
            via = cls._from_buffer(obj._buffer, obj._offset)
        if st[0] in ("set", "sets"):
            pool = lv if st[0] == "set" else [q for q in lv if q[1][0] == "string"]
            if not pool:
                continue
            path, lt, x = pool[st[1] % len(pool)]
            nv = fitting_value(lt, x, stepno + (1 if st[0] == "set" else 2))
            given = nv
            size_before = None
            if st[0] == "sets" and stepno % 2 == 1:
                # the new text given as a String xobject (living in the same buffer); the recorded size of the
                # target string cannot change after creation
                given = xo.String(nv, _buffer=obj._buffer)
                parent = V.get_at(t, obj, path[:-1])
                leaf_off = parent._get_offset(path[-1][1])
                size_before = xo.Int64._from_buffer(obj._buffer, leaf_off)
            try:
                V.set_at(t, via, path, given)
                if size_before is not None:
                    env.check(env.eq(xo.Int64._from_buffer(obj._buffer, leaf_off), size_before), f"C10 step {stepno}: assigning a String object to the string at {path} keeps the size recorded at creation")
            except BaseException as ex:
                if not isinstance(ex, Exception):
                    raise
                env.check(False, f"C10 fitting assignment at {path} raised {type(ex).__name__}: {str(ex)[:80]}")
                break
            exp = V.replace_at(t, exp, path, V.expected(lt, nv))
            what = f"C10 step {stepno}: set leaf {path}"
        elif st[0] in ("setr", "setx"):
            # whole compound replaced by a value of the SAME total size whose parts are distributed differently:
            # 'setr' plain data, 'setx' another xobject of the type (living in the same buffer)
            pool = [(p, ct, cv, redistributed(ct, cv, st[0])) for p, ct, cv in V.compounds(t, v) if V.type_at(t, v, p)[0][0] not in ("ref", "uref") or not p]
            pool = [q for q in pool if q[3] is not None and not behind_ref(t, v, q[0]) and (st[0] == "setx" or not tg.has_ref(q[1]))]
            if not pool:
                continue
            path, ct, cv, nv = pool[st[1] % len(pool)]
            value = nv
            try:
                if st[0] == "setx":
                    value = tg.build(ct)(nv, _buffer=obj._buffer)
                if path:
                    V.set_at(t, via, path, value)
                else:
                    via._update(value)
            except BaseException as ex:
                if not isinstance(ex, Exception):
                    raise
                # the parts of an object keep the place and space fixed at creation, so a library may refuse a
                # value whose parts are sized differently (C11) -- but then nothing may have changed
                what = f"C10 step {stepno}: an equal-size value with differently sized parts for {path or 'root'} was refused ({type(ex).__name__})"
                read_ok(env, t, obj, exp, what + " -- the object keeps its value (constructor handle)")
                if t[0] != "uref":
                    read_ok(env, t, cls._from_buffer(obj._buffer, obj._offset), exp, what + " -- the object keeps its value (fresh view)")
                neighbours_intact(env, B, "by the refused assignment")
                continue
            exp = V.replace_at(t, exp, path, V.expected(ct, nv)) if path else V.expected(ct, nv)
            what = f"C10 step {stepno}: set whole compound {path or 'root'} to an equal-size {'xobject' if st[0] == 'setx' else 'value'} with differently sized parts"
            read_ok(env, t, obj, exp, what + " -- read through the constructor handle")
            if t[0] != "uref":
                read_ok(env, t, cls._from_buffer(obj._buffer, obj._offset), exp, what + " -- read through a fresh view")
            neighbours_intact(env, B, "by that assignment")
            if tg.has_ref(ct) or True:
                sig0 = struct_sig(env, t, v, obj)  # part offsets legitimately move; sizes of the whole are checked by read-back
            continue
        elif st[0] in ("setc", "seta"):
            pool = comps
            if st[0] == "seta":
                # whole multi-dimensional arrays of scalars (also the root), given as ndarrays
                pool = [(p, ct, cv) for p, ct, cv in V.compounds(t, v) if ct[0] == "array" and ct[1][0] == "scalar" and len(ct[2]) >= 2 and not behind_ref(t, v, p) and (not p or V.type_at(t, v, p)[0][0] not in ("ref", "uref"))]
            if not pool:
                continue
            path, ct, cv = pool[st[1] % len(pool)]
            # a whole nested array/struct of equal size: same shape, other (pairwise distinct) leaf values
            nv = cv
            for p2, lt2, x2 in V.leaves(ct, cv):
                if not p2:
                    continue
                if lt2[0] == "scalar" and isinstance(x2, (int, float)) and not isinstance(x2, bool) and abs(x2) < 121 and x2 == x2:
                    f = x2 + 1 + stepno  # the ordinary sample values are small and distinct: shifting keeps them so
                else:
                    f = fitting_value(lt2, x2, stepno + 2)
                if f is not None:
                    nv = V.replace_at(ct, nv, p2, f)
            given = nv
            if ct[0] == "array" and ct[1][0] == "scalar" and (stepno % 2 == 0 or st[0] == "seta"):
                given = V.to_form(ct, nv, "ndarray")  # whole arrays of scalars are also assigned as ndarrays
            try:
                if path:
                    V.set_at(t, via, path, given)
                else:
                    via._update(given)
            except BaseException as ex:
                if not isinstance(ex, Exception):
                    raise
                env.check(False, f"C10 assignment of an equal-size compound at {path} raised {type(ex).__name__}: {str(ex)[:80]}")
                break
            exp = V.replace_at(t, exp, path, V.expected(ct, nv)) if path else V.expected(ct, nv)
            what = f"C10 step {stepno}: set whole compound {path or 'root'}"
        else:
            g = env.int(f"g{gi}", 1, 2**40)
            gi += 1
            obj._buffer.grow(g)
            what = f"C10 step {stepno}: grow"
        read_ok(env, t, obj, exp, what + " -- the assigned element changed, every other element unchanged")
        sig_equal(env, sig0, struct_sig(env, t, v, obj), what + " -- sizes, shapes and reference targets unchanged")
    neighbours_intact(env, B, "by the history")
    env.reach()


# --------------------------------------------------------------------------
# C11 -- misuse fails without side effects
def expect_error(env, B, fn, what, allowed=(Exception,), constructing=False, may_allocate=False):
    t, obj = B.t, B.obj
    m = env.mark()
    raised = None
    try:
        fn()
    except BaseException as ex:
        if not isinstance(ex, Exception):
            raise
        raised = ex
    env.check(raised is not None, f"C11 {what}: an error is raised")
    if not constructing and not may_allocate:
        # (an update whose leading items are (typename, data) pairs creates their objects in free space before the
        # refusal: no existing object lives there -- judged on values, like a refused construction)
        # (a refused CONSTRUCTION may have written into the space it had just been given: no existing object
        # lives there; it is judged on the values of the existing objects only)
        env.no_stores_since(m, f"C11 {what}: no byte of the buffer was written" + ("" if raised is not None else " (operation was accepted)"))
    read_ok(env, t, obj, B.cur_exp, f"C11 {what}: the object keeps its value")
    neighbours_intact(env, B, f"after {what}")


def negative_index_ok(env, B, node, key, nkey, lt, what):
    """two admissible outcomes for an index in -len..-1: an error with nothing changed, or the element counted from
    the end -- never another address"""
    m = env.mark()
    try:
        got = node[key]
        raised = False
    except BaseException as ex:
        if not isinstance(ex, Exception):
            raise
        raised = True
    if raised:
        env.no_stores_since(m, f"C11 reading {what}: refused, nothing written")
    else:
        want = node[nkey]
        same = V.same(V.readback(lt, got), V.readback(lt, want)) if lt[0] in ("scalar", "string") else (getattr(got, "_offset", None) is not None and _truthy(env.eq(got._offset, want._offset)) if not is_symbolic(env.eq(got._offset, want._offset)) else True)
        env.check(same, f"C11 reading {what}: an accepted negative index denotes the element counted from the end")
        if lt[0] not in ("scalar", "string") and is_symbolic(env.eq(got._offset, want._offset)):
            env.check(env.eq(got._offset, want._offset), f"C11 reading {what}: an accepted negative index denotes the element counted from the end")
    if lt[0] == "scalar":
        old = node[nkey]
        nv = other_scalar(lt, old.item() if hasattr(old, "item") else old, 1)
        m = env.mark()
        try:
            node[key] = nv
            raised = False
        except BaseException as ex:
            if not isinstance(ex, Exception):
                raise
            raised = True
        if raised:
            env.no_stores_since(m, f"C11 writing {what}: refused, nothing written")
        else:
            env.check(V.same(V.readback(lt, node[nkey]), V.expected(lt, nv)), f"C11 writing {what}: an accepted negative index writes the element counted from the end")
            node[nkey] = old  # put the value back: the rest of the object is compared below
    read_ok(env, B.t, B.obj, B.cur_exp, f"C11 {what}: every other element keeps its value")
    neighbours_intact(env, B, f"after {what}")


def sc_c11(env, t, v, cfg):
    B = construct(env, t, v, cfg)
    B.cur_exp = B.exp
    obj = B.obj
    misuse = cfg["misuse"]
    n = 0
    if misuse == "index":
        for path, ct, cv in V.compounds(t, v):
            if ct[0] != "array":
                continue
            node = V.get_at(t, obj, path)
            if node is None:
                continue
            shape = [int(d) for d in node._shape]
            base = tuple(0 for _ in shape)
            for ax, d in enumerate(shape):
                for bad in (d, d + 3) + ((-1, -d - 1) if node._is_static_type else (-d - 1,)):
                    idx = tuple(bad if k == ax else (0 if shape[k] > 0 else 0) for k in range(len(shape)))
                    key = idx if len(idx) > 1 else idx[0]
                    if any(s == 0 for k, s in enumerate(shape) if k != ax):
                        continue
                    lt = ct[1]
                    if -d <= bad < 0:
                        # a negative index within -len..-1: a library may refuse it (the pinned one does) or count from
                        # the end like Python sequences; what it must not do is address anything else
                        nidx = tuple(bad + d if k == ax else 0 for k in range(len(shape)))
                        nkey = nidx if len(nidx) > 1 else nidx[0]
                        negative_index_ok(env, B, node, key, nkey, lt, f"index {idx} (shape {shape}) at {path}")
                        n += 1
                        continue
                    expect_error(env, B, lambda: node[key], f"reading index {idx} outside shape {shape} at {path}")
                    if lt[0] == "scalar":
                        expect_error(env, B, lambda: node.__setitem__(key, 1), f"writing index {idx} outside shape {shape} at {path}")
                    n += 1
            # an index with MORE components than the array has axes addresses nothing of its shape
            if all(d > 0 for d in shape):
                for idx in (base + (0,), base + (shape[-1] + 4,)):  # (fewer components are used by the library's own tests)
                    key = idx if len(idx) != 1 else idx[0]
                    expect_error(env, B, lambda: node[key], f"reading index {idx} with more components than shape {shape} at {path}")
                    if ct[1][0] == "scalar":
                        expect_error(env, B, lambda: node.__setitem__(key, 1), f"writing index {idx} with more components than shape {shape} at {path}")
            if n > cfg.get("max_cases", 12):
                break
    elif misuse == "string":
        for path, lt, lv in V.leaves(t, v):
            if lt[0] != "string" or not path:
                continue
            cap = (len(lv.encode()) + 1 + 8 + 7) // 8 * 8 - 8  # bytes available after the size word
            cands = ["z" * (cap + extra) for extra in (0, 1, 9)]  # needs cap+extra+1 bytes with its terminator
            # multi-byte text: few characters, too many bytes
            cands += ["\u00e9" * ((cap + 1) // 2), "\u65e5" * (cap // 3 + 1)]
            for nv in cands:
                nb = len(nv.encode())
                if nb + 1 <= cap:
                    continue
                expect_error(env, B, lambda: V.set_at(t, obj, path, nv), f"assigning a string of {len(nv)} characters / {nb} bytes (+NUL) to a string with {cap} bytes of space at {path}")
            n += 1
            if n >= cfg.get("max_cases", 3):
                break
    elif misuse == "array_len":
        for path, ct, cv in V.compounds(t, v):
            if ct[0] != "array" or not path or V.type_at(t, v, path)[0][0] in ("ref", "uref"):
                continue  # assigning to a reference slot rebinds it (C08), it is not an update in place
            dims = V.dims_of(ct, cv)
            for delta in (1, -1):
                if dims[0] + delta < 0:
                    continue
                if len(dims) == 1:
                    item = cv[0] if dims[0] else V.Gen(0, 1).sample(ct[1])
                    nv = list(cv) + [item] if delta > 0 else list(cv)[:-1]
                else:
                    nv = list(cv) + [cv[0]] if delta > 0 else list(cv)[:-1]
                if any(d is not None and d != len(nv) for d in ct[2][:1]):
                    pass
                expect_error(env, B, lambda: V.set_at(t, obj, path, nv), f"updating the array at {path} (shape {dims}) with a value of length {len(nv)}")
            n += 1
            if n >= cfg.get("max_cases", 3):
                break
    elif misuse == "array_bad_item":
        # a whole-array update whose LAST item is unacceptable (a text where a number is expected; a non-member for a
        # union item; a too long text for a string item): refused as a whole -- the leading, valid items must not
        # have been written
        for path, ct, cv in V.compounds(t, v):
            if ct[0] != "array" or len(ct[2]) != 1 or not path or V.type_at(t, v, path)[0][0] in ("ref", "uref") or behind_ref(t, v, path):
                continue
            if not isinstance(cv, list) or len(cv) < 2:
                continue
            it = ct[1]
            if it[0] == "scalar":
                others = [other_scalar(it, x, 1) for x in cv]
                bad = "not a number"
            elif it[0] == "string":
                others = [other_string(x, 1) for x in cv]
                bad = "y" * (len(cv[-1].encode()) + 64)
            elif it[0] == "uref":
                others = list(cv)
                others[0] = cv[1] if cv[1] is not None and cv[0] is not None and cv[1][0] == cv[0][0] else cv[0]
                bad = ("NoSuchMember", {})
            else:
                continue
            nv = others[:-1] + [bad]
            if nv[:-1] == list(cv)[:-1] and it[0] != "uref":
                continue
            expect_error(env, B, lambda: V.set_at(t, obj, path, nv), f"updating the array at {path} with a list whose last item is unacceptable", may_allocate=(it[0] == "uref"))
            n += 1
            if n >= cfg.get("max_cases", 3):
                break
    elif misuse == "scalar_array":
        # an array where a single number is expected must not be written over the neighbours of the scalar
        for path, lt, lv in V.leaves(t, v):
            if lt[0] != "scalar" or not path:
                continue
            val = np.array([1, 2, 3], dtype=V.NPT[lt[1]])
            expect_error(env, B, lambda: V.set_at(t, obj, path, val), f"assigning an ndarray of 3 numbers to the scalar at {path}")
            n += 1
            if n >= cfg.get("max_cases", 2):
                break
    elif misuse == "negative_dim":
        for path, ct, cv in V.compounds(t, v):
            if ct[0] != "array" or static_size(ct[1]) is None or not any(d is None for d in ct[2]):
                continue
            ccls = tg.build(ct)
            ndyn = sum(1 for d in ct[2] if d is None)
            args = [-1] + [2] * (ndyn - 1)
            expect_error(env, B, lambda: ccls(*args, _buffer=B.buf), f"creating an array of type {ccls.__name__} with a negative dimension {args}", constructing=True)
            break
    elif misuse == "update_int":
        # re-initialising an existing array from an integer must not change its shape or size
        for path, ct, cv in V.compounds(t, v):
            if ct[0] != "array" or ct[1][0] != "scalar" or len(ct[2]) < 2 or ct[2][0] is not None:
                continue
            if path and (V.type_at(t, v, path)[0][0] in ("ref", "uref") or behind_ref(t, v, path)):
                continue
            node = V.get_at(t, obj, path)
            if node is None or int(np.prod([int(d) for d in node._shape])) in (0, int(node._shape[0])):
                continue
            total = int(np.prod([int(d) for d in node._shape]))
            sig = (node._size, [int(d) for d in node._shape])
            m = env.mark()
            try:
                node._update(total)
            except Exception:
                pass
            fresh = tg.build(ct)._from_buffer(node._buffer, node._offset)
            env.check(env.eq(fresh._size, sig[0]) is True or _truthy(env.eq(fresh._size, sig[0])), f"C11 _update({total}) of the array of shape {sig[1]} at {path or 'root'}: the recorded size cannot change after creation")
            env.check([int(d) for d in fresh._shape] == sig[1], f"C11 _update({total}) of the array of shape {sig[1]} at {path or 'root'}: the recorded shape cannot change after creation")
            neighbours_intact(env, B, "after an integer update")
            n += 1
            if n >= 2:
                break
    elif misuse == "ndarray_extra_axis":
        for path, ct, cv in V.compounds(t, v):
            if ct[0] != "array" or ct[1][0] != "scalar":
                continue
            if path and (V.type_at(t, v, path)[0][0] in ("ref", "uref") or behind_ref(t, v, path)):
                continue
            dims = V.dims_of(ct, cv)
            if not all(dims):
                continue
            val = np.ones(list(dims) + [2], dtype=V.NPT[ct[1][1]])
            if path:
                expect_error(env, B, lambda: V.set_at(t, obj, path, val), f"assigning an ndarray of shape {list(val.shape)} (one axis too many) to the array of shape {dims} at {path}")
            else:
                expect_error(env, B, lambda: obj._update(val), f"updating the array of shape {dims} with an ndarray of shape {list(val.shape)} (one axis too many)")
            ccls = tg.build(ct)
            expect_error(env, B, lambda: ccls(val, _buffer=B.buf), f"constructing {ccls.__name__} from an ndarray of shape {list(val.shape)} (one axis too many for its {len(dims)} axes)", constructing=True)
            n += 1
            if n >= cfg.get("max_cases", 2):
                break
    elif misuse == "empty_shape":
        # arrays that hold NO element: an update of another shape (another length of an axis, one axis too many) holds no
        # element either, but it is still an update of another shape -- refused, header and size word untouched
        for path, ct, cv in V.compounds(t, v):
            if ct[0] != "array" or ct[1][0] != "scalar":
                continue
            if path and (V.type_at(t, v, path)[0][0] in ("ref", "uref") or behind_ref(t, v, path)):
                continue
            if not path and t[0] != "array":
                continue  # (the array is what a top-level union reference refers to: reached through get(), not updated in place)
            node = V.get_at(t, obj, path) if path else obj
            if node is None or not hasattr(node, "_shape"):
                continue
            dims = [int(d) for d in node._shape]
            if int(np.prod(dims)) != 0:
                continue
            cands = []
            for ax, d in enumerate(ct[2]):
                if d is None:
                    other = list(dims)
                    other[ax] += 3
                    if int(np.prod(other)) == 0:
                        cands.append(np.zeros(other, dtype=V.NPT[ct[1][1]]))
            cands.append(np.zeros(list(dims) + [4], dtype=V.NPT[ct[1][1]]))
            for val in cands:
                if path:
                    expect_error(env, B, lambda: V.set_at(t, obj, path, val), f"assigning an ndarray of shape {list(val.shape)} to the empty array of shape {dims} at {path}")
                else:
                    expect_error(env, B, lambda: obj._update(val), f"updating the empty array of shape {dims} with an ndarray of shape {list(val.shape)}")
                fresh = tg.build(ct)._from_buffer(node._buffer, node._offset)
                env.check([int(d) for d in fresh._shape] == dims, f"C11 the empty array of shape {dims} at {path or 'root'} keeps its recorded shape after a refused update of shape {list(val.shape)}")
            n += 1
            if n >= cfg.get("max_cases", 3):
                break
    elif misuse == "struct_partial":
        # a dict update whose LATER field cannot be honoured must not leave the EARLIER fields rewritten,
        # whatever kind of error the refusal is
        for path, ct, cv in V.compounds(t, v):
            if ct[0] != "struct" or len(ct[2]) < 2:
                continue
            if path and (V.type_at(t, v, path)[0][0] in ("ref", "uref") or behind_ref(t, v, path)):
                continue
            fields = list(ct[2])
            first_ok = None
            for fn, ft in fields[:-1]:
                fv = fitting_value(ft, cv[fn]) if ft[0] in ("scalar", "string") else None
                if fv is not None:
                    first_ok = (fn, fv)
                    break
            if first_ok is None:
                continue
            k0 = [fn for fn, _ in fields].index(first_ok[0])
            for fn, ft in fields[k0 + 1 :]:
                if ft[0] == "scalar" and ft[1].startswith(("Int", "UInt")) and ft[1] not in ("Int64", "UInt64"):
                    bad = 2**70
                elif ft[0] == "array":
                    bad = 3.5
                elif ft[0] == "uref":
                    bad = ("NoSuchMember", {})
                elif ft[0] == "string":
                    bad = "x" * 4000
                else:
                    continue
                upd = {first_ok[0]: first_ok[1], fn: bad}
                node = V.get_at(t, obj, path) if path else V.root_of(t, obj)
                expect_error(env, B, lambda: node._update(upd), f"a dict update of the struct at {path or 'root'} whose field {fn} gets an impossible value after the valid field {first_ok[0]}")
                n += 1
                break
            if n >= cfg.get("max_cases", 2):
                break
    elif misuse == "struct_instance_size":
        # another xobject of the SAME struct class whose LAST dynamic field is longer than the target's (every earlier
        # dynamic field takes the same room, so that all field offsets agree) does not fit the space fixed at creation:
        # refused, also when it is an instance and not a dict (M11-C03)
        for path, ct, cv in V.compounds(t, v):
            if ct[0] != "struct" or tg.has_ref(ct) or static_size(ct) is not None or cv is None:
                continue
            if path and (V.type_at(t, v, path)[0][0] in ("ref", "uref") or behind_ref(t, v, path)):
                continue
            dyn = [(fn, ft) for fn, ft in ct[2] if static_size(ft) is None]
            if not dyn:
                continue
            fn, ft = dyn[-1]
            if ft[0] == "string":
                longer = str(cv[fn]) + "a longer text that takes several more slots than the original one"
            elif ft[0] == "array" and len(ft[2]) == 1 and ft[2][0] is None and static_size(ft[1]) is not None and len(cv[fn]) > 0:
                longer = list(cv[fn]) + [cv[fn][0]] * 9
            else:
                continue
            ov = dict(cv, **{fn: longer})
            other = V.make(ct, ov, _buffer=B.buf)
            if path:
                expect_error(env, B, lambda: V.set_at(t, obj, path, other), f"assigning an instance of the same struct class whose last dynamic field {fn} is longer to the struct at {path}", may_allocate=True)
            else:
                expect_error(env, B, lambda: obj._update(other), f"updating the struct with an instance of its class whose last dynamic field {fn} is longer", may_allocate=True)
            read_ok(env, ct, other, V.expected(ct, ov), "C11 the refused value itself is unchanged")
            n += 1
            if n >= cfg.get("max_cases", 2):
                break
    elif misuse == "array_shape_instance":
        # another xobject of the SAME array class that takes the same number of bytes but has another shape
        # or length (2x3 for 3x2; Int8[:] of 3 for 8 items: both fill the same slots) is not a fitting value
        for path, ct, cv in V.compounds(t, v):
            if ct[0] != "array" or ct[1][0] != "scalar" or not any(d is None for d in ct[2]):
                continue
            if path and (V.type_at(t, v, path)[0][0] in ("ref", "uref") or behind_ref(t, v, path)):
                continue
            ccls = tg.build(ct)
            dims = V.dims_of(ct, cv)
            dt = V.NPT[ct[1][1]]
            size0 = ccls._inspect_args(np.zeros(dims, dtype=dt)).size
            dyn = [k for k, d in enumerate(ct[2]) if d is None]
            cand = None
            for nd_ in itertools.product(range(0, 9), repeat=len(dyn)):
                nd2 = list(dims)
                for k, x in zip(dyn, nd_):
                    nd2[k] = x
                if nd2 != list(dims) and ccls._inspect_args(np.zeros(nd2, dtype=dt)).size == size0:
                    cand = nd2
                    if int(np.prod(nd2)) > 0:
                        break
            if cand is None:
                continue
            n_items = int(np.prod(cand))
            other = ccls(((np.arange(n_items) % 50) + 60).astype(dt).reshape(cand), _buffer=B.buf)
            if path:
                expect_error(env, B, lambda: V.set_at(t, obj, path, other), f"assigning an instance of the same array class with the same byte size but shape {cand} to the array of shape {dims} at {path}")
            else:
                expect_error(env, B, lambda: obj._update(other), f"updating the array of shape {dims} with an instance of its class that has the same byte size but shape {cand}")
            n += 1
            if n >= cfg.get("max_cases", 2):
                break
    elif misuse == "bigger_items":
        for path, ct, cv in V.compounds(t, v):
            if ct[0] != "array" or not path or static_size(ct[1]) is not None:
                continue
            dims = V.dims_of(ct, cv)
            if not all(dims):
                continue
            g = V.Gen(0, 5)
            g.c = itertools.count(50)
            big = g.sample(ct)  # same outer length only if dims are static...
            # same-length list whose items are larger (inner dynamic dims 5 instead of 2, longer strings)
            nd = len(ct[2])

            def rec(x, lvl):
                if lvl == nd:
                    gg = V.Gen(0, 19)
                    gg.c = itertools.count(50)
                    s = gg.sample(ct[1])
                    if ct[1][0] == "string":
                        s = "a much longer string than the original one " * 2
                    return s
                return [rec(y, lvl + 1) for y in x]

            nv = rec(cv, 0)
            node = V.get_at(t, obj, path)
            if node is None or V.type_at(t, v, path)[0][0] in ("ref", "uref"):
                continue
            if tg.build(ct)._inspect_args(nv).size <= tg.build(ct)._inspect_args(cv).size:
                continue  # slot rounding leaves room: the larger items do fit
            expect_error(env, B, lambda: V.set_at(t, obj, path, nv), f"updating the array at {path} with the same number of larger items")
            n += 1
            if n >= cfg.get("max_cases", 2):
                break
    elif misuse == "union":
        class Stranger(xo.Struct):
            zz = xo.Float64

        for path, rt, rv in ref_slots(t, v):
            if rt[0] != "uref" or not path:
                continue
            st = Stranger(zz=1.0, _buffer=B.buf)
            B.nbR = B.nbR  # unchanged
            expect_error(env, B, lambda: V.set_at(t, obj, path, st), f"assigning an object whose type is not a member of the union at {path}")
            expect_error(env, B, lambda: V.set_at(t, obj, path, ("Stranger", {"zz": 1.0})), f"assigning (typename, data) with a non-member type name at {path}")
            n += 1
            if n >= 2:
                break
    elif misuse == "owner":
        cls = tg.build(t)
        other_ctx = env.context("other")
        vin = v
        mk = lambda **kw: V.make(t, vin, **kw)
        expect_error(env, B, lambda: mk(_buffer=B.buf, _context=other_ctx), "constructing in a buffer that belongs to a different context")
        expect_error(env, B, lambda: mk(_offset=8), "an explicit offset without a buffer")
    env.reach()


# --------------------------------------------------------------------------
# C08 -- references
def sc_c08(env, t, v, cfg):
    """t is a struct with reference-typed fields/items; cfg['history'] drives the steps"""
    B = construct(env, t, v, cfg)
    obj, buf = B.obj, B.buf
    exp = B.exp
    slots = [(p, rt, rv) for p, rt, rv in ref_slots(t, v) if p and not behind_ref(t, v, p[:-1])]
    if not slots:
        env.reach()
        return
    # a second, long-lived handle on the same storage: every step is performed through one of the two and
    # observed through both (a reference re-pointed through one handle must be seen through the other)
    other = tg.build(t)._from_buffer(obj._buffer, obj._offset)
    read_ok(env, t, other, exp, "C08 a view rebuilt before the history reads the holder")
    handles = (obj, other)
    curv = {p: rv for p, rt, rv in slots}  # what each slot currently refers to (plain-data form)
    bound = {}  # slot path -> (type, object, value) of the existing object last bound to it
    for stepno, st in enumerate(cfg["history"]):
        actor = handles[stepno % 2]
        path, rt, rv = slots[(st[1] if len(st) > 1 else 0) % len(slots)]
        members = [rt[1]] if rt[0] == "ref" else list(rt[2])
        mt = members[(st[2] if len(st) > 2 else 0) % len(members)]
        empty = len(st) > 3 and st[3] == "empty" and mt[0] == "array" and any(d is None for d in mt[2])
        g = V.Gen(0, 0 if empty else 2)  # "empty": a zero-length target (an object whose truth value is False)
        g.c = itertools.count(20 + 7 * stepno)
        mv = g.sample(mt)
        same = len(st) > 3 and st[3] == "same" and curv.get(path) is not None
        if same:
            # plain data of exactly the shape and sizes of what the slot refers to now, other leaf values (M10-C10:
            # such data must still become a NEW object; the object bound before keeps its value)
            cur = curv[path]
            if rt[0] == "uref":
                mt = [m for m in members if tg.build(m).__name__ == cur[0]][0]
                cur = cur[1]
            mv = cur
            for p2, lt2, x2 in V.leaves(mt, cur):
                nv2 = fitting_value(lt2, x2, 1 + stepno % 2) if p2 else None
                if nv2 is not None:
                    mv = V.replace_at(mt, mv, p2, nv2)
        mcls = tg.build(mt)
        what = f"C08 step {stepno} {st[0]}{' (zero-length target)' if empty else ''}{' (data shaped like the current referent)' if same else ''} at {path}"
        if st[0] in ("bind_existing", "bind_uref_instance"):
            if st[0] == "bind_uref_instance" and rt[0] != "uref":
                continue
            target = mcls(mv, _buffer=buf)
            given = target
            if st[0] == "bind_uref_instance":
                # the existing object is handed over as a bound union-reference object living elsewhere in the buffer
                given = tg.build(rt)(target, _buffer=buf)
            m = env.mark()
            V.set_at(t, actor, path, given)
            got = V.get_at(t, obj, path)
            env.check(got is not None and got.__class__.__name__ == mcls.__name__, what + ": reads back an object of the bound type")
            if got is not None:
                env.check(env.eq(got._offset, target._offset), what + ": the reference denotes that very object (same offset)")
                env.check(len(env.regions_since(m)) == 0, what + ": no new object is created")
                # writes through either are visible through both
                lv = [(p, lt, x) for p, lt, x in V.leaves(mt, mv) if p and lt[0] == "scalar"]
                if lv:
                    p2, lt2, x2 = lv[0]
                    nv = other_scalar(lt2, x2, 1)
                    V.set_at(mt, target, p2, nv)
                    r = V.get_at(mt, got, p2)
                    env.check(V.same(V.readback(lt2, r), V.expected(lt2, nv)), what + ": a write through the original is visible through the reference")
                    nv2 = other_scalar(lt2, nv, 2)
                    V.set_at(mt, V.get_at(t, obj, path), p2, nv2)
                    r = V.get_at(mt, target, p2)
                    env.check(V.same(V.readback(lt2, r), V.expected(lt2, nv2)), what + ": a write through the reference is visible through the original")
                    mv = V.replace_at(mt, mv, p2, nv2)
            exp = V.replace_at(t, exp, path, V.expected(mt, mv) if rt[0] == "ref" else (mcls.__name__, V.expected(mt, mv)))
            curv[path] = mv if rt[0] == "ref" else (mcls.__name__, mv)
            if st[0] == "bind_existing":
                bound[path] = (mt, target, mv)
        elif st[0] in ("bind_value", "bind_foreign"):
            m = env.mark()
            if st[0] == "bind_value":
                V.set_at(t, actor, path, mv if rt[0] == "ref" else (mcls.__name__, mv))
                foreign = None
            else:
                fb = env.fresh(4096, tag=f"x{stepno}")
                foreign = mcls(mv, _buffer=fb)
                V.set_at(t, actor, path, foreign)
            got = V.get_at(t, obj, path)
            env.check(got is not None and got._buffer is obj._buffer, what + ": the referent lives in the holder's buffer")
            if got is not None:
                regs = [(o, s) for (b, o, s) in env.regions_since(m) if b is obj._buffer]
                gs = own_size(mt, got)
                env.check(sor_list(env, [sand(env, sle(env, o, got._offset), sle(env, got._offset + gs, o + s)) for o, s in regs]), what + ": a new object was created in the holder's buffer for it")
                if foreign is not None:
                    lv = [(p, lt, x) for p, lt, x in V.leaves(mt, mv) if p and lt[0] == "scalar"]
                    if lv:
                        p2, lt2, x2 = lv[0]
                        V.set_at(mt, foreign, p2, other_scalar(lt2, x2, 1))
            exp = V.replace_at(t, exp, path, V.expected(mt, mv) if rt[0] == "ref" else (mcls.__name__, V.expected(mt, mv)))
            curv[path] = mv if rt[0] == "ref" else (mcls.__name__, mv)
            if path in bound:
                bt, bobj, bv = bound.pop(path)
                read_ok(env, bt, bobj, V.expected(bt, bv), what + ": the object the reference denoted before keeps its value")
        elif st[0] == "bind_null":
            V.set_at(t, actor, path, None)
            got = V.get_at(t, obj, path)
            env.check(got is None, what + ": a null reference reads back as None")
            if rt[0] == "uref":
                parent = V.get_at(t, obj, path[:-1])
                slot_off = parent._get_offset(path[-1][1]) if path[-1][0] == "f" else parent._get_offset(path[-1][1])
                tid = xo.Int64._from_buffer(obj._buffer, slot_off + 8)
                env.check(env.eq(tid, -1), what + ": member index of a null union reference is -1")
            exp = V.replace_at(t, exp, path, None)
            curv[path] = None
            if path in bound:
                bt, bobj, bv = bound.pop(path)
                read_ok(env, bt, bobj, V.expected(bt, bv), what + ": the object the reference denoted before keeps its value")
        elif st[0] == "grow":
            g_ = env.int(f"g{stepno}", 1, 2**40)
            obj._buffer.grow(g_)
        elif st[0] == "alloc_until_growth":
            n_ = env.int(f"n{stepno}", 1, 2**40)
            cap0 = obj._buffer.capacity
            obj._buffer.allocate(n_)
        read_ok(env, t, obj, exp, what + ": the whole holder reads as expected afterwards")
        read_ok(env, t, other, exp, what + ": the holder reads the same through the other long-lived handle")
        # every non-null reference resolves to a live object of the recorded member type inside its buffer
        for p3, rt3, _ in slots:
            got = V.get_at(t, obj, p3)
            if got is None:
                continue
            gs = child_extent(env, got._buffer, ("dyn",), got._offset) if got.__class__._size is None else got.__class__._size
            env.check(sand(env, sle(env, 0, got._offset), sle(env, got._offset + gs, obj._buffer.capacity)), what + f": referent of {p3} lies inside the buffer")
            free_overlap = False
            for c in obj._buffer.chunks:
                free_overlap = sor(env, free_overlap, sand(env, symx.mkb(T(c.start) < T(got._offset) + T(gs)) if is_symbolic(c.start) or is_symbolic(got._offset) or is_symbolic(gs) else (c.start < got._offset + gs), symx.mkb(T(got._offset) < T(c.end)) if is_symbolic(c.end) or is_symbolic(got._offset) else (got._offset < c.end)))
            env.check(snot(env, free_overlap), what + f": referent of {p3} lies in live (not free) memory")
    neighbours_intact(env, B, "by the reference history")
    env.reach()


def snot(env, a):
    if is_symbolic(a):
        return symx.mkb(z3.Not(symx.B(a)))
    return not a


def sc_c10_npindex(env, t, v, cfg):
    """item get/set with indices given as small NumPy integers (np.int8, np.uint8, np.int16 ...) on arrays
    long enough for index*stride to exceed the index type's range"""
    B = construct(env, t, v, cfg)
    obj = B.obj
    exp = B.exp
    dims = V.dims_of(t, v)
    pos = [tuple(min(d - 1, p) for d in dims) for p in (1, 17, 20, 33)]
    for k, idx in enumerate(dict.fromkeys(pos)):
        for ity in (np.int8, np.uint8, np.int16, np.int32):
            key = tuple(ity(i) for i in idx)
            key = key if len(key) > 1 else key[0]
            x = idx[0]
            cur = exp
            for i in idx:
                cur = cur[i]
            try:
                got = obj[key]
            except BaseException as ex:
                if not isinstance(ex, Exception):
                    raise
                env.check(False, f"C10 reading item {idx} with a {ity.__name__} index raised {type(ex).__name__}")
                continue
            env.check(V.same(V.readback(t[1], got), cur), f"C10 reading item {idx} with a {ity.__name__} index returns that item")
            nv = other_scalar(t[1], cur, k + 1)
            obj[key] = nv
            exp = V.replace_at(t, exp, (("i", idx),), V.expected(t[1], nv))
            read_ok(env, t, obj, exp, f"C10 assigning item {idx} with a {ity.__name__} index changes that item and nothing else")
    neighbours_intact(env, B, "by item assignments with NumPy integer indices")
    env.reach()


def sc_c05_npdims(env, t, v, cfg):
    """an array created from DIMENSIONS given as small NumPy integers (as they come out of an int8 / uint8 array): the header
    (size, dimensions, strides) holds the documented values -- the same words as for plain Python integers"""
    B = construct(env, t, v, cfg)
    cls = tg.build(t)
    isz = tg.ISZ[t[1][1]]
    ndyn = sum(1 for d in t[2] if d is None)
    n = min(127 // isz + 3, 40 if len(t[2]) < 3 else 12)
    for ity in (np.int8, np.uint8):
        what = f"C05 array created from dimensions given as {ity.__name__}({n})"
        try:
            h = cls(*([ity(n)] * ndyn), _buffer=B.buf)
        except BaseException as ex:
            if not isinstance(ex, Exception):
                raise
            env.check(False, what + f": raised {type(ex).__name__}: {str(ex)[:80]}")
            continue
        r = cls(*([int(n)] * ndyn), _buffer=B.buf)
        for k in range(cls._data_offset // 8):
            a = xo.Int64._from_buffer(h._buffer, h._offset + 8 * k)
            b = xo.Int64._from_buffer(r._buffer, r._offset + 8 * k)
            env.check(env.eq(a, b), what + f": header word {k} (size, dimensions, strides) holds the documented value")
        env.check(env.eq(h._size, r._size), what + ": the object reports the documented size")
        env.check([int(x) for x in h._strides] == [int(x) for x in r._strides], what + ": the handle addresses items with the documented strides")
    neighbours_intact(env, B, "by creating arrays from NumPy-integer dimensions")
    env.reach()


SCENARIOS = {
    "c05np": sc_c05_npdims,
    "c01": sc_c01,
    "c01x": sc_c01_xobject,
    "c01cap": sc_c01_capacity,
    "c03": sc_c03,
    "c05": sc_c05,
    "c06": sc_c06,
    "c08": sc_c08,
    "c09": sc_c09,
    "c09n": sc_c09_nested,
    "c10": sc_c10,
    "c10np": sc_c10_npindex,
    "c11": sc_c11,
}


# --------------------------------------------------------------------------
# C20
def _extent(t, o):
    return (o._offset, own_size(t, o))


def disjoint_ok(env, a, b):
    (oa, sa), (ob, sb) = a, b
    return sor(env, sle(env, oa + sa, ob), sle(env, ob + sb, oa))


def slt(env, a, b):
    if is_symbolic(a) or is_symbolic(b):
        return symx.mkb(T(a) < T(b))
    return a < b


def allocator_state_ok(env, buf, live, what):
    """representation invariant of the free list (the one C04 proves inductive) on a restored buffer, and no live
    object inside a free chunk -- decided by the solver on the restored (symbolic) chunk bounds"""
    ok = True
    prev_end = None
    for k, c in enumerate(buf.chunks):
        inv = sand(env, sle(env, 0, c.start), sand(env, sle(env, c.start, c.end), sle(env, c.end, buf.capacity)))
        if prev_end is not None:
            inv = sand(env, inv, slt(env, prev_end, c.start))
        ok = env.check(inv, f"{what} the restored free list satisfies the allocator's invariant (sorted, disjoint, non-touching chunks inside the capacity)") and ok
        for off, size in live:
            ok = env.check(sor(env, sle(env, off + size, c.start), sle(env, c.end, off)), f"{what} no restored object lies in memory the restored free list offers") and ok
        prev_end = c.end
    return ok


def pickle_again_ok(env, group, buf, read):
    """pickling is not a one-shot operation: the same objects can be pickled again (the originals, their buffer and
    its context are left as they were), and the original context still makes buffers"""
    try:
        again = env.pickle_roundtrip(group)
    except BaseException as ex:
        if not isinstance(ex, Exception):
            raise
        return env.check(False, f"C20 pickling the same objects a second time raised {type(ex).__name__}: {str(ex)[:80]}")
    ok = read(again)
    try:
        nb = buf.context.new_buffer(64)
        ok = env.check(nb is not None and nb is not buf, "C20 the originals' context still makes buffers after pickling") and ok
    except BaseException as ex:
        if not isinstance(ex, Exception):
            raise
        ok = env.check(False, f"C20 the originals' context still makes buffers after pickling: raised {type(ex).__name__}: {str(ex)[:80]}") and ok
    return ok


def sc_c20(env, t, v, cfg):
    """pickle round trip of a group of objects sharing one buffer (the object, a second object of the same type,
    and an Int64 array), at any placement / after growth"""
    B = construct(env, t, v, cfg)
    obj, buf = B.obj, B.buf
    g = V.Gen(0, 2)
    g.c = itertools.count(31)
    v2 = g.sample(t)
    o2 = V.make(t, v2, _buffer=buf)
    exp2 = V.expected(t, v2)
    group = [obj, o2, B.nbL]
    # the object was in ordinary use before it is pickled: its typed array view was taken (M11-C20: whatever a handle
    # keeps from earlier calls travels in its instance dictionary)
    nplike_ok(env, t, obj, B.exp, "C20 before pickling:")
    m0 = env.mark()
    try:
        c1, c2, cn = env.pickle_roundtrip(group)
    except BaseException as ex:
        if not isinstance(ex, Exception):
            raise
        env.check(False, f"C20 pickling/unpickling raised {type(ex).__name__}: {str(ex)[:80]}")
        env.reach()
        return
    env.no_stores_since(m0, "C20 pickling does not modify the originals' buffer")
    pickle_again_ok(env, group, buf, lambda cs: read_ok(env, t, cs[0], B.exp, "C20 a second pickling of the same objects gives the same value again"))
    env.check(c1._buffer is not buf, "C20 the unpickled object lives in a buffer of its own (independent of the original's)")
    env.check(c1._buffer is c2._buffer and c1._buffer is cn._buffer, "C20 objects pickled together that shared a buffer still share one")
    read_ok(env, t, c1, B.exp, "C20 the unpickled object has the same value at every field")
    read_ok(env, t, c2, exp2, "C20 the second unpickled object has the same value at every field")
    env.check([int(x) for x in cn] == NB_L, "C20 the unpickled array has the same items")
    if t[0] != "uref":
        # (where the restored objects sit is the pickler's business: not an obligation)
        for what, o, c in (("first", obj, c1), ("second", o2, c2)):
            try:
                sz = own_size(t, c)
                env.check(sz is not None and sand(env, sle(env, 0, c._offset), sle(env, c._offset + sz, c._buffer.capacity)), f"C20 the {what} unpickled object reports a size and lies inside the restored buffer")
            except BaseException as ex:
                if not isinstance(ex, Exception):
                    raise
                env.check(False, f"C20 the {what} unpickled object reports its size: raised {type(ex).__name__}")
    # usable for further writes, independently of the originals
    nb = c1._buffer
    exp1 = B.exp
    n = 0
    for path, lt, lv in V.leaves(t, v):
        nv = fitting_value(lt, lv)
        if nv is None or not path or behind_ref(t, v, path[:-1]):
            continue
        n += 1
        if n > cfg.get("max_assign", 3):
            break
        m = env.mark()
        try:
            V.set_at(t, c1, path, nv)
        except BaseException as ex:
            if not isinstance(ex, Exception):
                raise
            env.check(False, f"C20 assignment at {path} of the unpickled object raised {type(ex).__name__}: {str(ex)[:80]}")
            continue
        if t[0] != "uref":
            env.frame(m, [(nb, c1._offset, own_size(t, c1))], f"C20 a write through the unpickled object touches only that object (leaf {path})")
        exp1 = V.replace_at(t, exp1, path, V.expected(lt, nv))
    read_ok(env, t, c1, exp1, "C20 the unpickled object reads back what was written through it")
    nplike_ok(env, t, c1, exp1, "C20 the unpickled array, after writes through its items:")
    read_ok(env, t, obj, B.exp, "C20 the original is unaffected by writes through the unpickled object")
    read_ok(env, t, c2, exp2, "C20 the second unpickled object is unaffected by writes through the first")
    # the restored buffer is a working allocator: valid free list, and a new object does not land on the restored ones
    allocator_state_ok(env, nb, ([_extent(t, c1), _extent(t, c2)] if t[0] != "uref" else []) + [(cn._offset, cn._size)], "C20")
    m = env.mark()
    try:
        extra = NEIGHBOUR(NB_R, _buffer=nb)
    except BaseException as ex:
        if not isinstance(ex, Exception):
            raise
        env.check(False, f"C20 allocating in the restored buffer raised {type(ex).__name__}: {str(ex)[:80]}")
        env.reach()
        return
    ex_ext = (extra._offset, extra._size)
    if t[0] != "uref":
        env.check(disjoint_ok(env, ex_ext, _extent(t, c1)), "C20 an object allocated in the restored buffer does not overlap the first unpickled object")
        env.check(disjoint_ok(env, ex_ext, _extent(t, c2)), "C20 an object allocated in the restored buffer does not overlap the second unpickled object")
    env.check(disjoint_ok(env, ex_ext, (cn._offset, cn._size)), "C20 an object allocated in the restored buffer does not overlap the unpickled array")
    env.check([int(x) for x in extra] == NB_R, "C20 the new object in the restored buffer reads back")
    read_ok(env, t, c1, exp1, "C20 the unpickled object is intact after an allocation in the restored buffer")
    read_ok(env, t, c2, exp2, "C20 the second unpickled object is intact after an allocation in the restored buffer")
    env.check([int(x) for x in cn] == NB_L, "C20 the unpickled array is intact after an allocation in the restored buffer")
    # usable as the source of a copy (needs the cached size/offsets)
    if t[0] != "uref":
        fb = env.fresh(0, tag="cp")
        try:
            cc = tg.build(t)(c2, _buffer=fb)
            read_ok(env, t, cc, exp2, "C20 a copy made from the unpickled object has its value")
        except BaseException as ex:
            if not isinstance(ex, Exception):
                raise
            env.check(False, f"C20 copying the unpickled object raised {type(ex).__name__}: {str(ex)[:80]}")
    env.reach()


SCENARIOS["c20"] = sc_c20
