#!/usr/bin/env python3
"""mutsweep.py -- systematic first-order mutation sweep (a measuring tool, not a check).

  gen   <outdir> [--per-file N] [--seed S]     enumerate AST-located mutants of the anchored source ranges (one text edit each)
  test  <outdir> [-j K]                        apply each mutant in a scratch worktree, run the unedited suite (-x); keep survivors
  check <outdir> [-j K]                        run the quick checks mapped to the mutated file against every survivor (VERIF_REPO)
  report <outdir>                              table: killed by suite / caught by which check / not caught (to triage by hand)

Nothing touches /repo: every mutant lives in a scratch worktree under /tmp that is removed at the end.
A survivor no check catches is either an equivalent mutant or a gap; that is decided by reading, and recorded in DESIGN.md.
"""
import ast
import json
import os
import random
import subprocess
import sys
import tempfile
from concurrent.futures import ThreadPoolExecutor

REPO = "/repo"
PY = "/venv/bin/python"

# file -> (line ranges or None for the whole file, checks to run on survivors)
TARGETS = {
    "xobjects/context.py": ([(36, 112), (140, 200), (395, 560), (560, 600)], ["C04", "C12", "C14", "C13", "C17", "C01", "C08"]),
    "xobjects/array.py": (None, ["C01", "C03", "C05", "C06", "C09", "C10", "C11", "C02", "C07", "C19"]),
    "xobjects/struct.py": (None, ["C01", "C03", "C05", "C06", "C09", "C10", "C11", "C02", "C19", "C20"]),
    "xobjects/string.py": (None, ["C01", "C03", "C05", "C06", "C09", "C10", "C11"]),
    "xobjects/ref.py": (None, ["C01", "C05", "C08", "C09", "C10", "C11", "C02", "C19"]),
    "xobjects/scalar.py": (None, ["C01", "C05", "C10", "C13", "C02"]),
    "xobjects/typeutils.py": (None, ["C01", "C03", "C05", "C11", "C15", "C19"]),
    "xobjects/capi.py": (None, ["C02", "C07", "C15", "C14"]),
    "xobjects/specialize_source.py": (None, ["C16", "C15"]),
    "xobjects/context_cpu.py": ([(83, 95), (265, 360), (390, 410), (640, 850)], ["C13", "C17", "C16", "C20", "C01", "C14"]),
    "xobjects/context_cupy.py": ([(660, 700)], ["C16"]),
    "xobjects/context_pyopencl.py": ([(495, 530)], ["C16"]),
    "xobjects/hybrid_class.py": (None, ["C18", "C19", "C20", "C14"]),
}

CMP = {ast.Lt: "<=", ast.LtE: "<", ast.Gt: ">=", ast.GtE: ">", ast.Eq: "!=", ast.NotEq: "==", ast.Is: "is not", ast.IsNot: "is", ast.In: "not in", ast.NotIn: "in"}
CMPSRC = {ast.Lt: "<", ast.LtE: "<=", ast.Gt: ">", ast.GtE: ">=", ast.Eq: "==", ast.NotEq: "!=", ast.Is: "is", ast.IsNot: "is not", ast.In: "in", ast.NotIn: "not in"}
BIN = {ast.Add: ("+", "-"), ast.Sub: ("-", "+"), ast.Mult: ("*", "+"), ast.FloorDiv: ("//", "*"), ast.Mod: ("%", "//")}


def line_starts(src):
    st = [0]
    for ln in src.splitlines(keepends=True):
        st.append(st[-1] + len(ln.encode()))
    return st


def mutants_of(path, ranges):
    src = open(os.path.join(REPO, path), "rb").read()
    text = src.decode()
    tree = ast.parse(text)
    ls = line_starts(text)

    def pos(line, col):
        return ls[line - 1] + col

    def inr(node):
        if ranges is None:
            return True
        return any(a <= node.lineno <= b for a, b in ranges)

    out = []

    def between(a_end, b_start, tok, new, what, line):
        seg = src[a_end:b_start].decode()
        i = seg.find(tok)
        if i < 0 or seg.count(tok) != 1 and tok not in ("is", "in"):
            if i < 0:
                return
        s = a_end + len(seg[:i].encode())
        out.append({"file": path, "line": line, "start": s, "end": s + len(tok), "new": new, "what": what})

    for node in ast.walk(tree):
        if not hasattr(node, "lineno") or not inr(node):
            continue
        if isinstance(node, ast.Compare) and len(node.ops) == 1:
            op = type(node.ops[0])
            if op in CMP:
                a = node.left
                b = node.comparators[0]
                between(pos(a.end_lineno, a.end_col_offset), pos(b.lineno, b.col_offset), CMPSRC[op], CMP[op], f"{CMPSRC[op]} -> {CMP[op]}", node.lineno)
        elif isinstance(node, ast.BinOp) and type(node.op) in BIN:
            if isinstance(node.left, ast.Constant) and isinstance(node.left.value, str):
                continue
            if isinstance(node.op, ast.Mod) and isinstance(node.left, (ast.Constant, ast.JoinedStr)):
                continue
            tok, new = BIN[type(node.op)]
            between(pos(node.left.end_lineno, node.left.end_col_offset), pos(node.right.lineno, node.right.col_offset), tok, new, f"{tok} -> {new}", node.lineno)
        elif isinstance(node, ast.AugAssign) and isinstance(node.op, (ast.Add, ast.Sub)):
            tok = "+=" if isinstance(node.op, ast.Add) else "-="
            between(pos(node.target.end_lineno, node.target.end_col_offset), pos(node.value.lineno, node.value.col_offset), tok, "=", f"{tok} -> =", node.lineno)
        elif isinstance(node, ast.BoolOp):
            tok, new = ("and", "or") if isinstance(node.op, ast.And) else ("or", "and")
            a, b = node.values[0], node.values[1]
            between(pos(a.end_lineno, a.end_col_offset), pos(b.lineno, b.col_offset), tok, new, f"{tok} -> {new}", node.lineno)
        elif isinstance(node, ast.UnaryOp) and isinstance(node.op, ast.Not):
            s = pos(node.lineno, node.col_offset)
            if src[s : s + 4] == b"not ":
                out.append({"file": path, "line": node.lineno, "start": s, "end": s + 4, "new": "", "what": "not x -> x"})
        elif isinstance(node, ast.Constant) and isinstance(node.value, int) and not isinstance(node.value, bool) and 0 <= node.value <= 64:
            s, e = pos(node.lineno, node.col_offset), pos(node.end_lineno, node.end_col_offset)
            if src[s:e].decode().isdigit():
                for nv in (node.value + 1, node.value - 1) if node.value > 0 else (1,):
                    out.append({"file": path, "line": node.lineno, "start": s, "end": e, "new": str(nv), "what": f"{node.value} -> {nv}"})
        elif isinstance(node, ast.Constant) and node.value in (True, False) and isinstance(node.value, bool):
            s, e = pos(node.lineno, node.col_offset), pos(node.end_lineno, node.end_col_offset)
            out.append({"file": path, "line": node.lineno, "start": s, "end": e, "new": str(not node.value), "what": f"{node.value} -> {not node.value}"})
        elif isinstance(node, ast.If) and not node.orelse and len(node.body) == 1 and isinstance(node.body[0], (ast.Raise,)):
            # drop a guard that only raises: `if c: raise` -> `if False and (c): raise`
            t = node.test
            s, e = pos(t.lineno, t.col_offset), pos(t.end_lineno, t.end_col_offset)
            out.append({"file": path, "line": node.lineno, "start": s, "end": e, "new": "False and (" + src[s:e].decode() + ")", "what": "guard that raises disabled"})
    # mutants inside C text emitted by string literals of the generators (capi.py, specialize_source.py, context_*.py)
    if path.endswith(("capi.py", "specialize_source.py")):
        for node in ast.walk(tree):
            if isinstance(node, ast.Constant) and isinstance(node.value, str) and inr(node) and node.lineno == node.end_lineno:
                s, e = pos(node.lineno, node.col_offset), pos(node.end_lineno, node.end_col_offset)
                lit = src[s:e].decode()
                for tok, new in (("+=", "="), ("+", "-"), ("*", "+"), ("<", "<="), ("int64_t", "int32_t"), ("int8_t", "int16_t"), ("8", "4"), ("16", "8"), ("1", "0"), ("0", "1")):
                    i = lit.find(tok, 1)
                    if 0 < i < len(lit) - 1 and lit.count(tok) == 1:
                        out.append({"file": path, "line": node.lineno, "start": s + len(lit[:i].encode()), "end": s + len(lit[:i].encode()) + len(tok), "new": new, "what": f"in C text {tok!r} -> {new!r}"})
    return out


def apply_mut(root, m):
    p = os.path.join(root, m["file"])
    b = open(p, "rb").read()
    nb = b[: m["start"]] + m["new"].encode() + b[m["end"] :]
    open(p, "wb").write(nb)
    try:
        ast.parse(nb.decode())
    except SyntaxError:
        return False
    return True


def cmd_gen(out, per_file, seed):
    os.makedirs(out, exist_ok=True)
    rnd = random.Random(seed)
    allm = []
    for path, (ranges, checks) in TARGETS.items():
        ms = mutants_of(path, ranges)
        rnd.shuffle(ms)
        for m in ms[:per_file]:
            m["checks"] = checks
            allm.append(m)
        print(path, len(ms), "->", min(len(ms), per_file))
    for i, m in enumerate(allm):
        m["id"] = i
    json.dump(allm, open(os.path.join(out, "mutants.json"), "w"), indent=0)
    print(len(allm), "mutants")


def mk_wt():
    wt = tempfile.mkdtemp(prefix="msw.", dir="/tmp")
    subprocess.run(["git", "-C", REPO, "worktree", "add", "-q", "--detach", wt, "HEAD"], check=True)
    return wt


def rm_wt(wt):
    subprocess.run(["git", "-C", REPO, "worktree", "remove", "--force", wt], capture_output=True)
    subprocess.run(["rm", "-rf", wt])


def cmd_test(out, jobs):
    ms = json.load(open(os.path.join(out, "mutants.json")))
    resf = os.path.join(out, "suite.json")
    res = json.load(open(resf)) if os.path.exists(resf) else {}
    todo = [m for m in ms if str(m["id"]) not in res]
    wts = [mk_wt() for _ in range(jobs)]
    free = list(wts)

    def one(m):
        wt = free.pop()
        try:
            subprocess.run(["git", "-C", wt, "checkout", "-q", "--", "."], check=True)
            if not apply_mut(wt, m):
                return m["id"], "syntax"
            d = subprocess.run(["git", "-C", wt, "diff"], capture_output=True, text=True).stdout
            open(os.path.join(out, f"m{m['id']}.diff"), "w").write(d)
            env = dict(os.environ, PYTHONPATH=wt, PYTHONDONTWRITEBYTECODE="1")
            try:
                p = subprocess.run([PY, "-m", "pytest", "-x", "-q", "-p", "no:cacheprovider", "--timeout=300"], cwd=wt, env=env, capture_output=True, text=True, timeout=900)
                tail = (p.stdout.strip().splitlines() or [""])[-1]
                return m["id"], ("survived" if p.returncode == 0 else "killed: " + tail[:80])
            except subprocess.TimeoutExpired:
                return m["id"], "killed: timeout"
        finally:
            free.append(wt)

    try:
        with ThreadPoolExecutor(jobs) as ex:
            for k, (i, r) in enumerate(ex.map(one, todo)):
                res[str(i)] = r
                if k % 10 == 0:
                    json.dump(res, open(resf, "w"))
                print(i, r, flush=True)
    finally:
        json.dump(res, open(resf, "w"))
        for wt in wts:
            rm_wt(wt)


def cmd_check(out, jobs):
    ms = {m["id"]: m for m in json.load(open(os.path.join(out, "mutants.json")))}
    res = json.load(open(os.path.join(out, "suite.json")))
    chf = os.path.join(out, "checks.json")
    ch = json.load(open(chf)) if os.path.exists(chf) else {}
    todo = [ms[int(i)] for i, r in res.items() if r == "survived" and i not in ch]
    # MS_FILES=a.py,b.py restricts the sweep to survivors in those files; MS_CHECKS=C04,C12 to those checks (in the mapped order)
    only_files = [f for f in os.environ.get("MS_FILES", "").split(",") if f]
    only_checks = [c for c in os.environ.get("MS_CHECKS", "").split(",") if c]
    if only_files:
        todo = [m for m in todo if any(m["file"].endswith(f) for f in only_files)]

    def one(m):
        wt = mk_wt()
        od = tempfile.mkdtemp(prefix="mso.", dir="/tmp")
        try:
            # the survivor's own diff (made at the time of the suite run): applies with offsets after later /repo commits
            a = subprocess.run(["git", "-C", wt, "apply", os.path.join(out, f"m{m['id']}.diff")], capture_output=True)
            if a.returncode:
                return m["id"], {"-": [-7, 0]}
            r = {}
            for c in [c for c in m["checks"] if not only_checks or c in only_checks]:
                env = dict(os.environ, VERIF_REPO=wt, VERIF_OUT=od, TMPDIR=od)
                try:
                    p = subprocess.run(["/verif/run.sh", c, "quick"], cwd="/verif", env=env, capture_output=True, text=True, timeout=1200)
                    nviol = sum(1 for l in p.stdout.splitlines() if l.startswith("VIOLATION"))
                    r[c] = [p.returncode, nviol]
                except subprocess.TimeoutExpired:
                    r[c] = [-9, 0]
                if r[c][0] == 1 and r[c][1] > 0:
                    break  # caught: no need to run the remaining checks
            return m["id"], r
        finally:
            rm_wt(wt)
            subprocess.run(["rm", "-rf", od])

    with ThreadPoolExecutor(jobs) as ex:
        for i, r in ex.map(one, todo):
            ch[str(i)] = r
            json.dump(ch, open(chf, "w"))
            print(i, ms[i]["file"], ms[i]["line"], ms[i]["what"], r, flush=True)


def cmd_report(out):
    ms = {m["id"]: m for m in json.load(open(os.path.join(out, "mutants.json")))}
    res = json.load(open(os.path.join(out, "suite.json")))
    ch = json.load(open(os.path.join(out, "checks.json"))) if os.path.exists(os.path.join(out, "checks.json")) else {}
    killed = sum(1 for r in res.values() if r.startswith("killed"))
    surv = [i for i, r in res.items() if r == "survived"]
    caught = [i for i in surv if i in ch and any(v[0] == 1 and v[1] > 0 for v in ch[i].values())]
    herr = [i for i in surv if i in ch and i not in caught and any(v[0] not in (0, 1) for v in ch[i].values())]
    missed = [i for i in surv if i in ch and i not in caught and i not in herr]
    print(f"mutants={len(res)} killed_by_suite={killed} survived={len(surv)} checked={len([i for i in surv if i in ch])} caught={len(caught)} harness_error={len(herr)} not_caught={len(missed)}")
    for lab, L in (("HARNESS-ERROR", herr), ("NOT-CAUGHT", missed)):
        for i in sorted(L, key=int):
            m = ms[int(i)]
            print(f"{lab} m{i} {m['file']}:{m['line']} {m['what']} {ch[i]}")


if __name__ == "__main__":
    a = sys.argv[1:]
    opt = lambda k, d: int(a[a.index(k) + 1]) if k in a else d
    if a[0] == "gen":
        cmd_gen(a[1], opt("--per-file", 40), opt("--seed", 1))
    elif a[0] == "test":
        cmd_test(a[1], opt("-j", 6))
    elif a[0] == "check":
        cmd_check(a[1], opt("-j", 2))
    elif a[0] == "report":
        cmd_report(a[1])
