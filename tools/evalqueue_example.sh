#!/bin/bash
# usage: q.sh "C16 C16 C15" "C01 C01 C06" ...   (pid followed by checks), sequential
cd /verif
for spec in "$@"; do set -- $spec; p=$1; shift; tools/evalwt.sh /tmp/r11/wt-$p $p M12-$p "$@" > /tmp/r11/ev/$p.log 2>&1; done
