#!/bin/bash
# wt_run.sh <patch.diff> <tier> <checks...>: evaluate a seeded change WITHOUT touching /repo: a scratch worktree of /repo HEAD
# gets the patch, the checks import xobjects from it (VERIF_REPO) and write evidence/replays to a scratch directory (VERIF_OUT).
# Several of these can run side by side.  The worktree and the scratch output are removed at the end.
p=$(realpath "$1"); tier=$2; shift 2
wt=$(mktemp -d /tmp/wtrun.XXXXXX); out=$(mktemp -d /tmp/wtout.XXXXXX)
git -C /repo worktree add -q --detach "$wt" HEAD || exit 9
trap 'git -C /repo worktree remove --force "$wt" 2>/dev/null; rm -rf "$wt" "$out"' EXIT
git -C "$wt" apply "$p" || { echo "patch does not apply"; exit 9; }
cd /verif
rc=0
for c in "$@"; do
  VERIF_REPO="$wt" VERIF_OUT="$out" TMPDIR="$out" ./run.sh $c $tier > "$out/$c.log" 2>&1; r=$?
  echo "== $c exit=$r :: $(grep -cE '^VIOLATION' $out/$c.log) violation line(s) :: $(tail -n 1 $out/$c.log | cut -c1-150)"
  grep -E "signature|HARNESS|INCONCL" "$out/$c.log" | sort | uniq -c | cut -c1-220 | head -6
  [ $r -ne 0 ] && rc=$r
done
exit $rc
