#!/bin/bash
# benign_wt.sh [-j K] <checks...>: every behaviour-preserving / legitimate-behaviour patch (seeded/B*, seeded/L9-*) that
# applies to /repo HEAD, against the named quick checks, in scratch worktrees (tools/wt_run.sh), K patches side by side.
# Anything that is not a clean exit 0 is a false alarm of the machinery and is listed.
cd "$(dirname "$0")/.."
J=1; if [ "$1" = "-j" ]; then J=$2; shift 2; fi
export CHECKS="$*"
one() {
  d=$1; p=$d/patch.diff
  git -C /repo apply --check "$(realpath $p)" 2>/dev/null || { echo "$(basename $d): does not apply to HEAD any more"; return; }
  out=$(tools/wt_run.sh $p quick $CHECKS 2>&1)
  bad=$(echo "$out" | grep -E "^== " | grep -v "exit=0 :: 0 violation")
  if [ -n "$bad" ] || echo "$out" | grep -q "HARNESS"; then
    echo "$(basename $d): ALARM $(echo "$out" | grep -E "^== |HARNESS|signature" | grep -v "exit=0 :: 0 violation" | cut -c1-220 | head -6 | tr '\n' '~')"
  else echo "$(basename $d): clean ($CHECKS)"; fi
}
export -f one
ls -d seeded/B* seeded/L9-* | xargs -P $J -I{} bash -c 'one {}'
