#!/bin/bash
# revert_run.sh <commit> <command...>: reverse-apply one /repo commit to the working tree, run the command, restore.
# (used to confirm that a check detects a defect that has since been fixed)
c=$1; shift
cd /repo || exit 9
git diff --quiet || { echo "repo working tree not clean"; exit 9; }
git show "$c" -- xobjects | git apply -R --3way 2>/dev/null || git show "$c" -- xobjects | git apply -R || { echo "cannot reverse-apply $c"; git checkout -- .; exit 9; }
git reset -q
(cd /verif && "$@")
rc=$?
git -C /repo checkout -- .
exit $rc
