#!/bin/bash
# evalmut.sh <worktree> <PID> <dest-name> <checks...>: copy patch+demo of a seeded change, confirm demo and suite, run checks against it
wt=$1; pid=$2; dest=$3; shift 3
cd /verif
mkdir -p seeded/$dest
cp $wt/patch.diff seeded/$dest/patch.diff || exit 9
cp $wt/demo_$pid.py seeded/$dest/ 2>/dev/null
(cd /repo && git apply --check /verif/seeded/$dest/patch.diff) || { echo "$dest: patch does not apply to /repo HEAD"; exit 9; }
(cd $wt && git diff -- xobjects | diff -q - /verif/seeded/$dest/patch.diff >/dev/null) && echo "$dest: worktree diff == patch.diff" || echo "$dest: WARNING worktree diff differs from patch.diff"
a=$(cd /tmp && PYTHONPATH=/repo timeout 300 /venv/bin/python /verif/seeded/$dest/demo_$pid.py >/dev/null 2>&1; echo $?)
b=$(tools/patch_run.sh seeded/$dest/patch.diff bash -c "cd /tmp && PYTHONPATH=/repo timeout 300 /venv/bin/python /verif/seeded/$dest/demo_$pid.py >/dev/null 2>&1; echo \$?")
echo "$dest demo: clean=$a patched=$b"
s=$(tools/patch_run.sh seeded/$dest/patch.diff bash -c "cd /repo && /venv/bin/python -m pytest -q -p no:cacheprovider --timeout=900 2>&1 | tail -1")
echo "$dest suite with patch: $s"
for p in "$@"; do
  echo "=== $dest -> $p"
  tools/patch_run.sh seeded/$dest/patch.diff ./run.sh $p quick 2>&1 | grep -E "signature|HARNESS|INCONCL|^C[0-9]+ \[" | sort | uniq -c | cut -c1-210 | head -7
done
