#!/usr/bin/env python3
"""append an entry to known_findings.json: kf.py <property> <status known|fixed> <signature> <commit-or-> <what...>"""
import json, sys, os
p = os.path.join(os.path.dirname(os.path.dirname(os.path.abspath(__file__))), "known_findings.json")
d = json.load(open(p))
prop, status, sig, commit = sys.argv[1:5]
what = " ".join(sys.argv[5:])
ent = {"property": prop, "signature": sig, "status": status, "what": what}
if status == "fixed":
    ent["commit"] = commit
    ent["line"] = f"fixed: property={prop} {commit} {what}"
d["findings"] = [f for f in d["findings"] if not (f["property"] == prop and f["signature"] == sig)] + [ent]
json.dump(d, open(p, "w"), indent=1)
print(ent)
