#!/usr/bin/env python3
"""regress_seeded.py [-j K] [prefix...]: for every seeded change that applies to /repo HEAD, run the checks its meta names
(caught_by) and report the seeded changes no check catches any more.  Each change is evaluated in a scratch worktree
(tools/wt_run.sh): /repo and /verif/evidence are not touched, K changes run side by side."""
import glob, json, os, re, subprocess, sys

os.chdir("/verif")
from concurrent.futures import ThreadPoolExecutor

args = sys.argv[1:]
J = 2
if "-j" in args:
    J = int(args[args.index("-j") + 1])
    del args[args.index("-j") : args.index("-j") + 2]
only = args
rows = []
todo = []
for d in sorted(glob.glob("seeded/*")):
    name = os.path.basename(d)
    if only and not any(name.startswith(o) for o in only):
        continue
    p = os.path.join(d, "patch.diff")
    if not os.path.exists(p):
        continue
    if subprocess.run(["git", "-C", "/repo", "apply", "--check", os.path.abspath(p)], capture_output=True).returncode != 0:
        rows.append((name, "does-not-apply", ""))
        continue
    meta = json.load(open(os.path.join(d, "meta.json"))) if os.path.exists(os.path.join(d, "meta.json")) else {}
    if name.startswith("B"):
        continue
    cb = meta.get("caught_by", "")
    text = " ".join(cb) if isinstance(cb, list) else str(cb)
    checks = sorted(set(re.findall(r"C\d\d", text)))
    if not checks:
        checks = sorted(set(re.findall(r"C\d\d", str(meta.get("breaks", "")))))
    todo.append((name, p, checks))


def one(job):
    name, p, checks = job
    out = subprocess.run(["tools/wt_run.sh", p, "quick"] + checks, capture_output=True, text=True).stdout
    got = {c: int(n) for c, n in re.findall(r"== (C\d\d) exit=\d+ :: (\d+) violation line", out)}
    status = "caught" if any(v > 0 for v in got.values()) else "MISSED"
    print(name, status, got, flush=True)
    return (name, status, json.dumps(got))


with ThreadPoolExecutor(J) as ex:
    rows += list(ex.map(one, todo))
print("---- summary")
for r in rows:
    if r[1] != "caught":
        print(*r)
