#!/usr/bin/env python3
"""regress_seeded.py: for every seeded change that applies to /repo HEAD, run the checks its meta names (caught_by) and
report the seeded changes no check catches any more; benign ones (B*) must raise no alarm from the checks listed in
their meta 'observed' (all).  Restores /repo after each run.  Evidence files are rewritten: rerun runall afterwards."""
import glob, json, os, re, subprocess, sys

os.chdir("/verif")
only = sys.argv[1:]
rows = []
for d in sorted(glob.glob("seeded/*")):
    name = os.path.basename(d)
    if only and not any(name.startswith(o) for o in only):
        continue
    p = os.path.join(d, "patch.diff")
    if not os.path.exists(p):
        continue
    if subprocess.run(["git", "-C", "/repo", "apply", "--check", os.path.abspath(p)], capture_output=True).returncode != 0:
        rows.append((name, "does-not-apply", ""))
        continue
    meta = json.load(open(os.path.join(d, "meta.json"))) if os.path.exists(os.path.join(d, "meta.json")) else {}
    if name.startswith("B"):
        continue
    cb = meta.get("caught_by", "")
    text = " ".join(cb) if isinstance(cb, list) else str(cb)
    checks = sorted(set(re.findall(r"C\d\d", text)))
    if not checks:
        checks = sorted(set(re.findall(r"C\d\d", str(meta.get("breaks", "")))))
    got = {}
    for c in checks:
        out = subprocess.run(["tools/patch_run.sh", p, "./run.sh", c, "quick"], capture_output=True, text=True).stdout
        got[c] = out.count("\nVIOLATION property=") + (1 if out.startswith("VIOLATION property=") else 0)
    status = "caught" if any(v > 0 for v in got.values()) else "MISSED"
    rows.append((name, status, json.dumps(got)))
    print(name, status, got, flush=True)
print("---- summary")
for r in rows:
    if r[1] != "caught":
        print(*r)
