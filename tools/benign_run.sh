#!/bin/bash
# benign_run.sh <patch.diff>: apply a behaviour-preserving patch to /repo, run every quick check, list anything that is
# not a clean pass (a false alarm), restore /repo.  Evidence files are rewritten: rerun tools/runall.sh quick afterwards.
cd /verif
tools/patch_run.sh "$1" tools/runall.sh quick 2>&1 | grep -E "exit=" | grep -v "exit=0" 
echo "benign_run done: $1"
