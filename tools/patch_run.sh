#!/bin/bash
# patch_run.sh <patch.diff> <command...>: apply a patch to /repo's working tree, run the command from /verif, restore.
p=$(realpath "$1"); shift
cd /repo || exit 9
git diff --quiet || { echo "repo working tree not clean"; exit 9; }
git apply "$p" || { echo "patch does not apply"; exit 9; }
(cd /verif && "$@")
rc=$?
git -C /repo checkout -- .
exit $rc
