#!/bin/bash
# runall.sh [quick|thorough] [ids...]: run the registered checks one after another, validate evidence
cd "$(dirname "$0")/.."
tier=${1:-quick}; shift
ids=${@:-$(python3 -c "import json; print(' '.join(c['property_id'] for c in json.load(open('MANIFEST.json'))['checks']))")}
rc=0
for p in $ids; do
  s=$(date +%s)
  LOG=${TMPDIR:-/tmp}/runall_$$_$p.log
  ./run.sh $p $tier > $LOG 2>&1; r=$?
  e=$(( $(date +%s) - s ))
  v=$(python3-vt -c "
import json, jsonschema, sys
try:
    jsonschema.validate(json.load(open('evidence/$p.json')), json.load(open('/root/.vp/EVIDENCE.schema.json'))); print('evidence-ok')
except Exception as ex: print('EVIDENCE-INVALID', str(ex)[:100])")
  echo "$p exit=$r ${e}s $v :: $(tail -n 1 $LOG | cut -c1-160)"
  grep -E "VIOLATION|HARNESS-ERROR|INCONCLUSIVE|KNOWN-FINDING" $LOG | head -5 | cut -c1-200
  [ $r -eq 0 ] && rm -f $LOG
  [ $r -ne 0 ] && rc=1
done
exit $rc
