#!/usr/bin/env python3
"""mkpatch.py <out.diff> <file> <<< python-literal list of (old, new) : make a patch against /repo HEAD by string replacement (working tree is restored)"""
import subprocess, sys, ast
out, path = sys.argv[1], sys.argv[2]
pairs = ast.literal_eval(sys.stdin.read())
p = "/repo/" + path
s = open(p).read()
for old, new in pairs:
    assert s.count(old) >= 1, ("not found", old)
    s = s.replace(old, new)
open(p, "w").write(s)
d = subprocess.run(["git", "-C", "/repo", "diff"], capture_output=True, text=True).stdout
open(out, "w").write(d)
subprocess.run(["git", "-C", "/repo", "checkout", "--", "."])
print(d)
