#!/usr/bin/env python3
"""regenerates MANIFEST.json from the table below (kept in one place so it stays valid)"""
import json, os
ROOT = os.path.dirname(os.path.dirname(os.path.abspath(__file__)))

MC = "model_checking"; TV = "translation_validation"; EX = "exploration"
W_NOTE = 'Mode W bounds: catalogue of ~49 type expressions (+40 seeded random in the thorough tier), dynamic axes 0..3, 4 value families, histories <= 3/4 steps -- all ENUMERATED; placement (capacity, free-list chunk bounds with N<=1 quick / <=2 thorough, explicit offset, grow step, growth amounts; prior contents = poison) decided by the SOLVER for all values < 2^62. Quick tier assumes a roomy first chunk for multi-allocation scenarios (running out of space is explored by the growth placements). Stubs S1 (Int64 codec for symbolic words), S2 (is_integer), S9 (write-log storage model, validated each run against the real BufferNumpy/BufferByteArray by running every scenario concretely). Mode P (C03, C05, C06, C10, C11 only): the real planners/writers/readers (Array._inspect_args/_to_buffer/_from_buffer/_get_offset/__setitem__/bound_check, MetaStruct with abstract children of symbolic size, String._inspect_args/_to_buffer and the in-place string assignment path, arrays of abstract dynamic items of symbolic size, Ref/UnionRef codecs for every stored word) run on SYMBOLIC dimensions, indices, child sizes, string byte/character counts and capacities and are compared with the documented layout for ALL values < 2^62 (axis count <= 3, struct patterns <= 4 fields quick / 5 thorough enumerated).'
W_TECH = "symbolic execution of the real Python constructors/accessors on z3 Int proxies over a write-log buffer model with symbolic placement; z3 unsat per obligation; concrete replay on real CPU buffers"
CHECKS = {
 "C02": (TV, "5/C02",
  "Translation validation per generated C function: the exact text capi.gen_code/specialize_source produce is parsed (pycparser) and translated to z3 terms; for every catalogue type, data path and function (get/set/getp/len/typeid/member) the disequality between the C address/length/typeid term and (a) the documented-layout term and (b) the term obtained by symbolically executing the real Python readers on an ld-buffer is checked unsat for ALL indices and ALL header words at once under WF. sat = replayed by compiling the accessor with cffi and comparing with the Python accessors on a real object.",
  "Catalogue of ~50 type expressions quick / +120 seeded random thorough (types are enumerated, not solved); S10/S11 C semantics; WF facts of DESIGN appendix A; A1, A2; Python reader raising on a path is counted and left to C06.",
  "C-to-SMT translation (pycparser AST -> z3 Int terms over uninterpreted ld) + symbolic execution of Python readers; z3 unsat of term disequality; cffi differential replay"),
 "C07": (TV, "5/C07",
  "Same translation; obligations per function under WF(layout): every load/store lies inside the object (or reference target) it belongs to and is aligned relative to that object's start, every int64 sub-expression stays in range, setters perform exactly one store, last, at the documented element address, of the leaf's width and type, of the unconverted value parameter; distinct in-range index tuples address disjoint elements (non-linear integer arithmetic, all dims symbolic).",
  "As C02; additionally A1 for multi-dimensional shapes counts a zero dimension as 1 (excludes shape (2^62,3,0)); sanitizer execution itself is outside the technique (replay is a differential run with byte-diff of the buffer).",
  "C-to-SMT translation + z3 (NIA) obligations for in-bounds/alignment/overflow/single-store; cffi differential replay"),
 "C15": (TV, "5/C15",
  "The opencl, cuda and cpu_openmp specialisations (real headers + real specialize_source) are translated like cpu_serial and every function's return term, load/store addresses, widths, types and order are proved equal to the cpu_serial translation (z3; mostly decided by the simplifier as syntactic identity); AST-level qualifier discipline: in OpenCL every pointer type (casts, declarations, parameters, returns, opaque typedefs) carries the global qualifier, elsewhere none does; host gcc -fsyntax-only acceptance per target (auxiliary, concrete).",
  "Catalogue as C02; __global mapped to a marker qualifier by the preprocessor; real device compilers out of reach.",
  "C-to-SMT translation per target + z3 term equality; AST qualifier walk; host compiler syntax check (auxiliary)"),
 "C04": (MC, "5/C04",
  "Bounded symbolic model checking of the real allocator: XBuffer.allocate/free/grow/__init__ are executed on z3 integer proxies from an ARBITRARY free-list state satisfying the representation invariant (one inductive step, so histories of any length are covered as long as the invariant is inductive, which is itself checked), for every capacity, chunk bound, size, grow step; list length N and alignment enumerated. unsat = holds for all values within the bound, sat = concrete state replayed on a real BufferNumpy/BufferByteArray.",
  "Invariant I (DESIGN 5/C04); N<=3 quick / <=5 thorough; alignments 1..64 powers of two; <=3 growth rounds unwound; sizes < 2^62; storage primitives are recording stubs (their byte semantics is C13); L1 bit-vector lemma for x & -2^k.",
  "symbolic execution of real Python on z3 Int proxies; inductive step over representation invariant; z3 unsat/sat per obligation; replay of models"),
 "C12": (MC, "5/C12",
  "Same symbolic inductive step as C04 with the first-fit executable specification as oracle: lowest fitting chunk, growth only when nothing fits, exact free-list point-set after free, coalescing (non-touching chunks + two-step adjacent-free harness), free-total accounting, exceptions as outcomes, and a ranking obligation per growth round (bytes missing at the tail decrease by the growth amount and the number of self-recursions stays within a 900-frame budget).",
  "As C04; recursion budget stated as 900 frames; growth amount itself is not part of the oracle.",
  "symbolic execution of real Python on z3 Int proxies vs. first-fit reference predicates; ranking-function obligation; replay of models"),

 "C01": (MC, "5/C01",
  "Bounded symbolic execution of the real constructors and readers: every catalogue type x value sample x input form (plain data, ndarray with/without conversion, object ndarray, another xobject, string capacities) is constructed with the real code on a buffer whose capacity, free list, explicit offset, grow step and prior contents are solver variables; read-back through every accessor (and to_nplike/to_nparray) must equal the input on every feasible path, with no never-written byte showing through.",
  W_NOTE, W_TECH),
 "C03": (MC, "5/C03",
  "Frame condition by symbolic execution: every store the real constructor / a fitting assignment issues is proved (z3) to lie inside the object's extent or an extent allocated during the operation, for every placement; reported size == reserved extent == size word; every nested part inside its parent, siblings disjoint (solver, on the library's own offsets); live neighbours on both sides read back unchanged.",
  W_NOTE, W_TECH),
 "C05": (MC, "5/C05",
  "An independent decoder written from Architecture.md/types.rst/C05 (vx.layoutspec, not the library's reader) is run over the symbolic memory image the real writers produced: it must recover the written value, and every part must start at a multiple of 8 relative to its object, for every placement (symbolic reference words are followed symbolically).",
  W_NOTE, W_TECH),
 "C06": (MC, "5/C06",
  "For every catalogue type: the handle returned by the real constructor versus a view rebuilt by the real _from_buffer from (buffer, offset) on a symbolically placed buffer: equal values, equal _size/_shape/_strides, equal address for every index/field at every nesting level (z3 equality of the offset terms), and a write through either is read through the other.",
  W_NOTE, W_TECH),
 "C08": (MC, "5/C08",
  "Reference histories (bind to existing / value / foreign object / null, write through either side, grow by a symbolic amount, allocate a symbolic size until growth) on reference-bearing structs with symbolic placement: alias => same target offset (z3) and writes visible both ways, no allocation; value/foreign => target inside a region allocated in the holder's buffer during the assignment; null => None and member index -1; after every step every non-null reference resolves inside the buffer, outside every free chunk (z3), and the holder reads back as the model says.",
  W_NOTE, W_TECH),
 "C09": (MC, "5/C09",
  "Copy-construction by the real constructors into the same buffer, another buffer of the same context, and another context, on symbolically placed buffers: equal value, equal size, extents disjoint (z3), later writes on either side do not show through, every reference in the copy resolves in the copy's own buffer (same buffer: same target offset; otherwise: inside a region allocated there during the copy).",
  W_NOTE, W_TECH),
 "C10": (MC, "5/C10",
  "Model-based histories (set leaf / set whole nested compound of equal size, through the handle or a freshly rebuilt view / grow by a symbolic amount) executed with the real setters on symbolically placed objects; after every step the whole object is re-read and compared with a plain-Python model, and every size, shape, stride and offset must be unchanged (z3 equality).",
  W_NOTE, W_TECH),
 "C11": (MC, "5/C11",
  "Misuse classes (index outside the shape incl. negative, string too long for the space fixed at creation, array update of another length, same-length update with larger dynamic items, union non-member by object and by name, buffer of another context, offset without buffer) executed on symbolically placed objects with live neighbours: an exception must be raised, the write log must be unchanged at that point for every placement, object and neighbours keep their values.",
  W_NOTE, W_TECH),
 "C17": (MC, "section 15/C17",
  "PARTIAL. The real KernelDispatcher.__call__, KernelCpu.__call__ and KernelCpu.to_function_arg are executed for xobjects living at SYMBOLIC offsets of symbolically placed buffers (several objects per buffer; after growth by symbolic amounts, allocation of symbolic sizes until growth, further allocations). The three foreign calls of that code are stubs (S15): ffi.from_buffer(x) = address of the first byte of x, ffi.cast(ctype, address) = typed pointer, np.frombuffer(storage).ctypes.data = address of the storage, where an address is (storage identity, z3 offset term); the compiled function is a recorder that refuses a pointer whose C type differs from the declared one (what cffi does at the call) and keeps its arguments. Obligations decided by z3 for every placement: each xobject argument (struct, nested/dynamic struct, array object, union holder) is a pointer of its declared C type into the CURRENT storage of its buffer at exactly the object's offset; an xobject array passed where a pointer to scalars is declared points to offset + data offset with the item's C type; declared argument order; NumPy arrays/slices give a pointer to their first element with their element type; the declared return value is handed back unchanged. Enumerated, decided by execution (no solver variable involved): scalar conversion for the 10 scalar types at their extremes, refusal of positional/missing/extra/misspelt arguments and of arrays of another element type. Everything the stubs hide (cffi, the compiled code) is covered only by the concrete validation pass, which runs the same scenario with real compiled probe kernels that report the address / element / scalar they received, serial and OpenMP.",
  W_NOTE + " C17: 6 xobject types, 20 probe kernels (enumerated); GPU contexts, kernels with n_threads (launch geometry is C16), and the C semantics of the compiled kernel are outside the claim.", W_TECH),
 "C18": (MC, "section 15/C18",
  "Histories (set a leaf through the dressed attribute / through the underlying struct, assign a scalar-array field, assign a dressed object to a nested field from the same or another buffer, assign to a reference field from the same / another buffer, copy into the same / another / a new buffer, move, move a nested part) executed with the real HybridClass machinery (descriptors, rename tables, _reinit_from_xobject, copy, move) on hybrid classes of a bounded catalogue placed on symbolic buffers. After every step, for every placement on the path: the dressed attributes, the underlying struct view and a plain-Python model agree (incl. renamed fields); every nested dressed part lives in its container's buffer at the offset of the field it dresses (z3 equality of offset terms); a nested assignment stores a copy inside the container, disjoint from the assigned object (z3), independent both ways; a reference assignment shares (same buffer and offset) and is refused across buffers leaving the object unchanged; copy is equal, of the same class, disjoint/in the requested buffer, independent both ways; move ends in the target buffer with equal value and all nested parts relocated, and is refused for nested parts and reference-bearing objects.",
  W_NOTE + " C18: 7 hybrid class definitions quick / 10 thorough (scalars with and without declared defaults, strings, scalar arrays of 1-3 axes, nested hybrid classes up to 3 levels, references to hybrid classes, renamed fields), 8 / 11 histories of <= 5 steps, nested parts given as dicts or as dressed objects; placements: roomy free chunk, capacity 0 with growth at every allocation, arbitrary (tight) free chunk with solver forks per allocation. The typed NumPy views of the symbolic buffer are write-back arrays (stub S14: an element assignment through a view is stored to the write-log), validated by the concrete pass.", W_TECH),
 "C19": (MC, "section 15/C19",
  "Dictionary form: hybrid objects of the bounded catalogue are built on symbolically placed buffers (values ordinary / equal to the declared defaults at the top level or in nested classes / type extremes / empty arrays), to_dict() (with the copy into the default context, which is a symbolic context in the symbolic run, and with copy_to_cpu=False) and from_dict() into a second symbolically placed buffer are the real code; for every placement: scalar fields equal to their DECLARED default are absent from the dictionary (also under renaming and in nested classes), to_dict leaves the object unchanged, the rebuilt object is of the class and equal at every field, its nested dressed parts sit on their fields, its own dictionary has the same keys. JSON form: for every reference-free struct and one-dimensional array type of the type catalogue, T(x._to_json()) built into a second buffer reads back x's value; x and its neighbours are unchanged.",
  W_NOTE + " C19: hybrid classes/values as C18; default factories are not in the catalogue (outside the claim); json.dumps-serialisability of the forms is not claimed.", W_TECH),
 "C20": (MC, "5/C20 (section 15)",
  "PARTIAL. Pickle round trip of a group of objects sharing one symbolically placed buffer (the object, a second object of the same type, an Int64 array), for every catalogue struct/array type and every hybrid class of the C18 catalogue: the object protocol pickle drives (__reduce_ex__(4), the classes' own __getstate__/__setstate__ or instance __dict__, one memo) is executed in Python over the real classes with solver terms as offsets/capacity/free list; afterwards, for every placement: same value at every field, the restored object lies inside the restored buffer, restored objects share one buffer distinct from the original's, writes through the copy stay inside the copy (frame, z3) and do not reach the original, an allocation in the restored buffer is disjoint (z3) from every restored object (the restored free list is a working allocator state), the restored object can be the source of a copy. The serialiser itself (the C pickle module, NumPy's array pickling, ContextCpu state) runs only in the concrete validation pass and in replays, which use the real pickle.dumps/loads.",
  W_NOTE + " C20: stub S13 (copy.deepcopy = pickle's object protocol with by-value leaves; inconclusive if an xobjects class defined __deepcopy__/__copy__); hybrid classes: the C18 catalogue (nested dressed parts must sit on their fields after unpickling); GPU contexts outside the claim.", W_TECH),
 "C13": (MC, "5/C13",
  "The real primitives of BufferNumpy and BufferByteArray (update_from_native incl. overlapping same-storage copies, copy_to_native, to_native, update_from_buffer from bytes-like data and from typed memoryviews, to_bytearray, to_pointer_arg, update_from_nplike with and without dtype conversion, to_nplike / to_nparray for 1-3 axes) and XBuffer.update_from_xbuffer (same context / other context / other buffer kind) are executed on a symbolic byte-container model whose length and content are solver variables; for every capacity, offset, source offset, length, element count and requested shape with ranges inside the containers a Skolem-position postcondition is proved: exactly the requested bytes change, to exactly the source bytes (for NumPy sources: the bytes of the array in the destination dtype, converted once iff the dtypes differ), lengths unchanged, source untouched, extracted copies are not views, typed views are windows on the buffer's own storage of exactly prod(shape)*itemsize bytes at the requested offset. AUXILIARY (concrete, no solver verdict, labelled in the evidence): NumPy's conversion and source-layout handling on the real buffers -- 10x10 dtype pairs x 8 source layouts (C, Fortran, transposed, strided, permuted 3-D, empty, 0-d) x offsets, incl. aliasing of the typed views.",
  "S6: container model of bytearray / 1-D int8 ndarray slicing (clamping, bytearray length change, ndarray broadcast error, view aliasing), validated each run against the real containers on ~2000 small cases; S16: a NumPy array is (concrete dtype, symbolic element count, opaque content), np.frombuffer a typed window that raises unless it fits, np.prod multiplies proxies, memoryview(x).cast('B') the bytes of x; len/bytearray/memoryview/np/nplike_to_numpy names in xobjects.context_cpu are replaced for the run. scalar.py helpers are compositions of these primitives and are not run separately.",
  "symbolic execution of the real primitives on a symbolic container (uninterpreted content function, Skolem position); z3 unsat per obligation; concrete replay"),
 "C14": (EX, "5/C14",
  "Bounded exhaustive path enumeration of the real sort_classes/topological_sort/sources_from_classes on abstract classes whose dependency edges (none / inner type / declared dependency) are solver variables; every branch on an edge is a solver-decided fork, so each feasible path is one dependency graph inside the bound (<=3 classes quick, <=4 thorough; enumerated root lists and API masks). Per graph: acyclic => no error, each reachable class with an API exactly once, dependencies first, one source block per class; cyclic => ValueError. This is the weakest use of the technique (the solver only prunes and supplies models) and is labelled as such.",
  "graphs with more classes are outside the claim; 'the emitted source compiles' is observed only in the replay of a counterexample (real Struct classes + cffi build); A2 (distinct names).",
  "symbolic execution with solver-variable edges = bounded exhaustive path enumeration; replay with real classes and cffi"),
 "C16": (TV, "5/C16",
  "PARTIAL. For enumerated kernel templates the real specialize_source output of the four targets is parsed and the execution form of every vectorize_over block is read off the AST (CPU for-loop, OpenCL get_global_id assignment, CUDA index expression + guard); the launch geometry comes from symbolically executing the real KernelCupy.__call__ and KernelPyopencl.__call__ with symbolic n_threads and block size. z3 proves for ALL n >= 0 and block sizes 1..1024: the executed index set is exactly 0..n-1 on every target, the work-item -> index map is injective (exactly once), nothing runs for n = 0. The text-level claims (only_for_context, include_file, pass-through) are observed on the templates by locating marker statements in the parsed output (auxiliary, no solver verdict). Counterexamples are replayed by host-compiling every specialisation and driving it with a simulated launch.",
  "11 templates (enumerated); n < 2^31, block <= 1024; S7 (int/np.ceil/float division on proxies) with lemma L2 proved each run from the IEEE-754 rounding axiom; GPU execution model as stated in evidence; arbitrary kernel sources, real devices and OpenMP scheduling are outside the claim.",
  "pycparser AST -> z3 execution predicates + symbolic execution of the real launch code; z3 unsat of set equality/injectivity for all n, block; simulated-launch replay"),
}
# additions of round 10 (DESIGN.md section 16), appended to the level notes
EXTRA = {
 "C01": " Placements also include `aligned` under default alignment 1 (quick) and 2, `packed` under 4 (thorough). Catalogue: three user-named subclasses of array classes.",
 "C02": " A counterexample that does not reproduce from a fresh process is replayed after the generator calls that preceded it in the worker that found it (history-aware replay).",
 "C05": " Scenario c05np: arrays created from dimensions given as small NumPy integers must carry the header words of the plain-integer case. History-aware replays as for C02.",
 "C06": " History-aware replays as for C02.",
 "C07": " History-aware replays as for C02.",
 "C08": " Steps also bind plain data shaped exactly like the current referent (a new object must be created; the object bound before keeps its value).",
 "C09": " A second copy of the (modified) original into the same explicit destination buffer: equal to the original as it is now, sharing nothing with the first copy.",
 "C11": " Misuse class empty_shape: updates of another shape on arrays that hold no element.",
 "C13": " Buffers are made by the real constructor on the symbolic container; every byte primitive also runs after a real XBuffer.grow() by a symbolic amount (solver) and, as an AUXILIARY concrete pass, on real buffers fresh and grown (byte_primitive_concrete_cases) -- state a buffer object keeps about its storage outside the container model (e.g. a memoryview) is only observable there.",
 "C14": " Real-class cases (concrete observation): hybrid classes with declared dependencies, a union with a list of members and its own dependency, a plain struct depending on a hybrid class; sorting twice gives the same result and leaves inner types / dependencies unchanged; two cffi builds per case.",
 "C16": " Templates include blocks whose bound is an expression (n/2, n-1, (n+1)/3): the CPU loop header and the CUDA guard must carry the annotated expression (OpenCL: once per work-item of the launch).",
 "C17": " NumPy arguments also as transposed, F-ordered, column-block, reversed and strided views (pointer to the array's OWN first element; a kernel write reaches the array); unpickled duplicates of xobjects as arguments (pointer into the duplicate's storage).",
 "C18": " Step setxa (real buffers only): array elements written through the underlying struct after the buffer grew under the dressed object. Catalogue: a hybrid class derived from another hybrid class.",
 "C19": " Catalogue: a hybrid class derived from another hybrid class with its own fields and declared defaults; an object of the base class is turned into its dictionary form first.",
}
NA = {
}
PENDING = "check for this property is not built yet at this commit (planned, see DESIGN.md section 5); not claimed until it runs"
ALL = ["C%02d" % i for i in range(1, 21)]

def main():
    checks = []
    for pid in ALL:
        if pid not in CHECKS: continue
        lvl, ref, text, note, tech = CHECKS[pid]
        note = note + EXTRA.get(pid, "")
        checks.append({
            "property_id": pid,
            "quick_cmd": f"./run.sh {pid} quick",
            "thorough_cmd": f"./run.sh {pid} thorough",
            "evidence_file": f"/verif/evidence/{pid}.json",
            "replay_cmd_template": "/venv/bin/python {path}",
            "engine": "vx (symx + z3)",
            "level_claimed": {"category": lvl, "text": text, "design_ref": f"DESIGN.md section {ref}"},
            "level_note": note,
            "technique": tech,
        })
    na = []
    for pid in ALL:
        if pid in CHECKS: continue
        na.append({"property_id": pid, "reason": NA.get(pid, PENDING)})
    man = {
        "version": 1,
        "setup_cmd": "./setup.sh",
        "hooks": {
            "guard": "XOBJECTS_VERIF",
            "enable": "no source hooks are needed: all interception is done from the harness side (subclassing XBuffer kinds, temporarily replacing module-level names); the guard variable is reserved and unused",
            "baseline_off_cmd": "cd /repo && /venv/bin/python -m pytest -ra -q -p no:cacheprovider --timeout=900 --continue-on-collection-errors",
            "source_commits": [],
            "add_only": True,
        },
        "engines": [
            {"name": "symx", "path": "vx/symx.py", "serves_properties": sorted(CHECKS), "kind_free_text": "replay-based symbolic executor: real Python functions run on z3 Int proxies, branch decisions and obligations discharged by z3"},
            {"name": "symbuf", "path": "vx/symbuf.py", "serves_properties": [p for p in sorted(CHECKS) if p in ("C01","C03","C05","C06","C08","C09","C10","C11")], "kind_free_text": "buffers with symbolic placement: real XBuffer allocator + write-log memory whose reads are resolved by solver queries"},
            {"name": "cgen", "path": "vx/cgen.py", "serves_properties": [p for p in sorted(CHECKS) if p in ("C02","C07","C15","C16")], "kind_free_text": "generated C (pycparser AST) -> z3 terms"},
        ],
        "checks": checks,
        "not_applicable": na,
        "notes": "solver-based checking of the real code; see DESIGN.md. Exit 0 = held, 1 = VIOLATION line(s), 3 = harness error (never expected on the unchanged tree).",
    }
    with open(os.path.join(ROOT, "MANIFEST.json"), "w") as f:
        json.dump(man, f, indent=1)
    print("MANIFEST.json:", len(checks), "checks,", len(na), "not applicable")

if __name__ == "__main__":
    main()
