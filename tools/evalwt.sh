#!/bin/bash
# evalwt.sh <agent-worktree> <PID> <dest-name> <checks...>: keep patch+demo+notes of a sub-agent's seeded change under seeded/<dest>,
# confirm (in a fresh scratch worktree, never in /repo) that the patch applies to /repo HEAD, that the unedited suite passes with it,
# that the demo exits 0 without and 1 with it; then run the named quick checks against it (VERIF_REPO).  Parallel-safe.
src=$1; pid=$2; dest=$3; shift 3
cd /verif
mkdir -p seeded/$dest
(cd $src && git diff -- xobjects) > seeded/$dest/patch.diff
[ -s seeded/$dest/patch.diff ] || cp $src/patch.diff seeded/$dest/patch.diff
cp $src/demo_$pid.py seeded/$dest/ 2>/dev/null; cp $src/NOTES.md seeded/$dest/NOTES.md 2>/dev/null
wt=$(mktemp -d /tmp/evwt.XXXXXX); out=$(mktemp -d /tmp/evout.XXXXXX)
git -C /repo worktree add -q --detach "$wt" HEAD || exit 9
trap 'git -C /repo worktree remove --force "$wt" 2>/dev/null; rm -rf "$wt" "$out"' EXIT
a=$(cd $out && PYTHONPATH=$wt timeout 300 /venv/bin/python /verif/seeded/$dest/demo_$pid.py >/dev/null 2>&1; echo $?)
git -C "$wt" apply /verif/seeded/$dest/patch.diff || { echo "$dest: patch does not apply to /repo HEAD"; exit 9; }
b=$(cd $out && PYTHONPATH=$wt timeout 300 /venv/bin/python /verif/seeded/$dest/demo_$pid.py >/dev/null 2>&1; echo $?)
echo "$dest demo: clean=$a patched=$b"
s=$(cd $wt && PYTHONPATH=$wt /venv/bin/python -m pytest -q -p no:cacheprovider --timeout=900 2>&1 | tail -1)
echo "$dest suite with patch: $s"
for c in "$@"; do
  VERIF_REPO="$wt" VERIF_OUT="$out" TMPDIR="$out" ./run.sh $c quick > "$out/$c.log" 2>&1; r=$?
  echo "== $dest -> $c exit=$r :: $(grep -cE '^VIOLATION' $out/$c.log) violation line(s) :: $(tail -n 1 $out/$c.log | cut -c1-150)"
  grep -E "signature|HARNESS|INCONCL" "$out/$c.log" | sort | uniq -c | cut -c1-220 | head -6
done
