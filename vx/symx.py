r"""symx -- replay-based symbolic execution of real Python code on z3 proxies.

The real functions of /repo are *called*; integers that the property
quantifies over are `SymInt` proxies wrapping z3 `Int` terms (Python ints are
unbounded, hence mathematical integers).  Comparisons produce `SymBool`;
`SymBool.__bool__` asks the engine, which follows a recorded decision prefix
and forks at the first undecided branch (depth-first re-execution, one run of
the harness per feasible path).

Verdict vocabulary
  prove(c)   path /\ not c   unsat -> holds for every value on this path
                              sat   -> candidate counterexample (model kept)
                              unknown -> inconclusive (never success)
  assume(c)  prune; an unsatisfiable assumption aborts the path (and shows up
             as a missing reachability witness)
  reach(tag) reachability twin: the point was reached on a feasible path
"""
import hashlib
import time

import z3

try:  # numpy is optional for the engine itself
    import numpy as _np
except Exception:  # pragma: no cover
    _np = None


class Abort(BaseException):
    """path infeasible / pruned"""


class Truncated(BaseException):
    """decision cap hit: counted as a truncated path (unwinding assertion)"""


class Inconclusive(BaseException):
    """solver said unknown on a branch decision"""


STUB_NAMES = ("SymInt", "SymBool", "SymReal", "SymBytes", "SymNd", "SymView", "_SymMV", "SymStr", "SymVec", "PBuf", "Mem", "MemView", "WBArray", "Ptr", "Addr", "FakeStatic", "FakeDyn", "FakeItem", "NpFacade", "NPProxy")


def is_stub_gap(ex):
    """an exception that says a stub of the harness does not offer what the code under test uses (attribute, operand
    type, call form), or that a symbolic size was turned into an absurd concrete amount of memory: the harness cannot
    decide this path -- it is not the library refusing or failing"""
    if isinstance(ex, (MemoryError, RecursionError)):
        return True
    if isinstance(ex, (AttributeError, TypeError, NotImplementedError)):
        msg = str(ex)
        if any(n in msg for n in STUB_NAMES):
            return True
        tb = ex.__traceback__
        last = None
        while tb is not None:
            last = tb
            tb = tb.tb_next
        if last is not None and "/verif/" in last.tb_frame.f_code.co_filename:
            return True
    return False


_ENG = None


def engine():
    if _ENG is None:
        raise RuntimeError("no active symx engine")
    return _ENG


def T(x):
    """python/np int | SymInt | z3 term -> z3 Int term"""
    if isinstance(x, SymInt):
        return x.e
    if isinstance(x, z3.ExprRef):
        return x
    if isinstance(x, bool):
        return z3.IntVal(int(x))
    if isinstance(x, int):
        return z3.IntVal(x)
    if _np is not None and isinstance(x, (_np.integer, _np.bool_)):
        return z3.IntVal(int(x))
    raise TypeError(f"cannot make an Int term from {type(x).__name__}: {x!r}")


def B(x):
    """python bool | SymBool | z3 bool -> z3 Bool term"""
    if isinstance(x, SymBool):
        return x.e
    if isinstance(x, z3.ExprRef):
        return x
    if isinstance(x, (bool,)) or (_np is not None and isinstance(x, _np.bool_)):
        return z3.BoolVal(bool(x))
    raise TypeError(f"cannot make a Bool term from {type(x).__name__}")


def is_sym(x):
    return isinstance(x, (SymInt, SymBool, SymReal))


def _lift(x):
    if isinstance(x, SymInt):
        return x.e
    if isinstance(x, bool):
        return z3.IntVal(int(x))
    if isinstance(x, int):
        return z3.IntVal(x)
    if _np is not None and isinstance(x, (_np.integer, _np.bool_)):
        return z3.IntVal(int(x))
    return NotImplemented


def mk(e):
    """wrap a term; constants collapse to python ints so concrete code stays concrete"""
    e = z3.simplify(e)
    if z3.is_int_value(e):
        return e.as_long()
    return SymInt(e)


def mkb(e):
    e = z3.simplify(e)
    if z3.is_true(e):
        return True
    if z3.is_false(e):
        return False
    return SymBool(e)


def _pydiv(a, b):
    """floor division with Python semantics (z3 Int div is euclidean)"""
    if z3.is_int_value(b) and b.as_long() > 0:
        return a / b
    q = a / b
    r = a % b
    return z3.If(b > 0, q, z3.If(r == 0, q, q - 1))


def _pymod(a, b):
    if z3.is_int_value(b) and b.as_long() > 0:
        return a % b
    r = a % b  # 0 <= r < |b|
    return z3.If(b > 0, r, z3.If(r == 0, r, r + b))


class SymBool:
    def __deepcopy__(s, memo):  # terms are immutable values
        return s

    __slots__ = ("e",)
    __array_ufunc__ = None

    def __init__(self, e):
        self.e = e

    def __bool__(self):
        return engine().decide(self.e)

    def __and__(self, o):
        return mkb(z3.And(self.e, B(o)))

    __rand__ = __and__

    def __or__(self, o):
        return mkb(z3.Or(self.e, B(o)))

    __ror__ = __or__

    def __invert__(self):
        return mkb(z3.Not(self.e))

    def __eq__(self, o):
        return mkb(self.e == B(o))

    def __ne__(self, o):
        return mkb(self.e != B(o))

    __hash__ = None

    def __repr__(self):
        return f"<{self.e}>"


class SymInt:
    def __deepcopy__(s, memo):  # terms are immutable values
        return s

    __slots__ = ("e",)
    __array_ufunc__ = None
    __array_priority__ = 1000

    def __init__(self, e):
        self.e = e

    # -- arithmetic ------------------------------------------------------
    def _bin(self, o, f):
        o = _lift(o)
        if o is NotImplemented:
            return NotImplemented
        return mk(f(self.e, o))

    def _rbin(self, o, f):
        o = _lift(o)
        if o is NotImplemented:
            return NotImplemented
        return mk(f(o, self.e))

    def __add__(s, o):
        return s._bin(o, lambda a, b: a + b)

    def __radd__(s, o):
        return s._rbin(o, lambda a, b: a + b)

    def __sub__(s, o):
        return s._bin(o, lambda a, b: a - b)

    def __rsub__(s, o):
        return s._rbin(o, lambda a, b: a - b)

    def __mul__(s, o):
        if isinstance(o, (bytes, bytearray, str, list, tuple)):
            return engine().sequence_repeat(o, s)
        return s._bin(o, lambda a, b: a * b)

    def __rmul__(s, o):
        if isinstance(o, (bytes, bytearray, str, list, tuple)):
            return engine().sequence_repeat(o, s)
        return s._rbin(o, lambda a, b: a * b)

    def __neg__(s):
        return mk(-s.e)

    def __pos__(s):
        return s

    def __abs__(s):
        return mk(z3.If(s.e >= 0, s.e, -s.e))

    def __floordiv__(s, o):
        return s._bin(o, _pydiv)

    def __rfloordiv__(s, o):
        return s._rbin(o, _pydiv)

    def __mod__(s, o):
        return s._bin(o, _pymod)

    def __rmod__(s, o):
        return s._rbin(o, _pymod)

    def __divmod__(s, o):
        return s // o, s % o

    def __truediv__(s, o):
        if isinstance(o, SymReal):
            return SymReal(z3.ToReal(s.e) / o.e)
        o = _lift(o)
        if o is NotImplemented:
            return NotImplemented
        return SymReal(z3.ToReal(s.e) / z3.ToReal(o))

    def __rtruediv__(s, o):
        o = _lift(o)
        if o is NotImplemented:
            return NotImplemented
        return SymReal(z3.ToReal(o) / z3.ToReal(s.e))

    def __pow__(s, o):
        if isinstance(o, int) and 0 <= o <= 4:
            r = z3.IntVal(1)
            for _ in range(o):
                r = r * s.e
            return mk(r)
        return NotImplemented

    def __lshift__(s, o):
        if isinstance(o, int) and o >= 0:
            return mk(s.e * (1 << o))
        return NotImplemented

    def __rshift__(s, o):
        if isinstance(o, int) and o >= 0:
            return mk(s.e / (1 << o))
        return NotImplemented

    def __and__(s, o):
        # the forms the code base uses: x & -2**k  (round down to a multiple)
        # and x & (2**k-1) (remainder); identity L1 is discharged as a
        # bit-vector lemma once per run (vx.lemmas)
        if isinstance(o, int) and not isinstance(o, bool):
            if o < 0 and (-o) & (-o - 1) == 0:
                a = -o
                return mk(s.e - s.e % a)
            if o >= 0 and (o + 1) & o == 0:
                return mk(s.e % (o + 1))
        if isinstance(o, SymInt):
            v = engine().concretize(o, why="bitwise-and operand")
            return s & v
        return NotImplemented

    __rand__ = __and__

    # -- comparisons -----------------------------------------------------
    def _cmp(self, o, f):
        o = _lift(o)
        if o is NotImplemented:
            return NotImplemented
        return mkb(f(self.e, o))

    def __lt__(s, o):
        return s._cmp(o, lambda a, b: a < b)

    def __le__(s, o):
        return s._cmp(o, lambda a, b: a <= b)

    def __gt__(s, o):
        return s._cmp(o, lambda a, b: a > b)

    def __ge__(s, o):
        return s._cmp(o, lambda a, b: a >= b)

    def __eq__(s, o):
        if o is None or isinstance(o, (str, bytes, tuple, list)):
            return False
        r = s._cmp(o, lambda a, b: a == b)
        return False if r is NotImplemented else r

    def __ne__(s, o):
        if o is None or isinstance(o, (str, bytes, tuple, list)):
            return True
        r = s._cmp(o, lambda a, b: a != b)
        return True if r is NotImplemented else r

    # -- conversions: concretise by forking ------------------------------
    def __bool__(s):
        return engine().decide(s.e != 0)

    def __index__(s):
        return engine().concretize(s, why="__index__")

    def __int__(s):
        return engine().concretize(s, why="__int__")

    def __float__(s):
        return float(engine().concretize(s, why="__float__"))

    def __hash__(s):
        return hash(engine().concretize(s, why="__hash__"))

    def __ceil__(s):
        return s

    def __floor__(s):
        return s

    def __trunc__(s):
        return s

    def __round__(s, n=None):
        return s

    def __repr__(s):
        return f"<{s.e}>"

    def __format__(s, spec):
        return repr(s)


class SymReal:
    def __deepcopy__(s, memo):  # terms are immutable values
        return s

    """real-valued term; only what the CUDA launch code needs (n/bs, ceil)"""

    __slots__ = ("e",)
    __array_ufunc__ = None

    def __init__(self, e):
        self.e = e

    def __ceil__(s):
        c = engine().fresh_int("ceil")
        engine().add_axiom(z3.And(z3.ToReal(c.e) - 1 < s.e, s.e <= z3.ToReal(c.e)))
        return c

    def __floor__(s):
        c = engine().fresh_int("floor")
        engine().add_axiom(z3.And(z3.ToReal(c.e) <= s.e, s.e < z3.ToReal(c.e) + 1))
        return c

    def __repr__(s):
        return f"<real {s.e}>"


class Stats:
    FIELDS = (
        "paths",
        "queries",
        "obligations",
        "discharged",
        "cex",
        "unknown",
        "truncated",
        "aborted",
        "forks",
        "fork_caps",
        "nontrivial",
        "reached",
    )

    def __init__(self):
        for f in self.FIELDS:
            setattr(self, f, 0)
        self.solver_s = 0.0
        self.hashes = set()

    def as_dict(self):
        d = {f: getattr(self, f) for f in self.FIELDS}
        d["solver_s"] = round(self.solver_s, 3)
        d["distinct_nontrivial"] = len(self.hashes)
        return d


class Engine:
    def __init__(
        self,
        name="",
        timeout_ms=30000,
        max_decisions=600,
        max_paths=200000,
        fork_cap=4,
        max_cex=8,
        keep_samples=3,
    ):
        self.name = name
        self.solver = z3.Solver()
        self.solver.set("timeout", timeout_ms)
        self.max_decisions = max_decisions
        self.max_paths = max_paths
        self.fork_cap = fork_cap
        self.max_cex = max_cex
        self.keep_samples = keep_samples
        self.stats = Stats()
        self.cexs = []
        self.samples = []
        self.reach_tags = {}
        self.notes = []
        self.inputs = {}
        self._fresh = 0
        self.sequence_repeat_hook = None
        self.small_bounds = (64, 4096, 1 << 20)
        self.count_paths_as_cases = False
        self.smt_keep = default_smt_keep()  # thorough tier: keep this many discharged queries as SMT-LIB2 for a second solver
        self.smt_samples = []

    # ---- solver plumbing -------------------------------------------------
    def check(self, *extra):
        t = time.time()
        r = self.solver.check(*extra)
        self.stats.solver_s += time.time() - t
        self.stats.queries += 1
        return str(r)

    def fresh_int(self, base):
        self._fresh += 1
        return SymInt(z3.Int(f"{base}!{self._fresh}"))

    def sym(self, name, lo=None, hi=None):
        v = z3.Int(name)
        self.inputs[name] = v
        if lo is not None:
            self.solver.add(v >= lo)
        if hi is not None:
            self.solver.add(v <= hi)
        return SymInt(v)

    def add_axiom(self, c):
        self.solver.add(c)

    def sequence_repeat(self, seq, n):
        if self.sequence_repeat_hook is not None:
            return self.sequence_repeat_hook(seq, n)
        return seq * self.concretize(n, why="sequence repeat")

    # ---- exploration -------------------------------------------------------
    def explore(self, fn):
        """run fn(self) once per feasible path (DFS over recorded decisions)"""
        global _ENG
        prev = _ENG
        _ENG = self
        stack = [[]]
        try:
            while stack:
                if self.stats.paths + self.stats.truncated >= self.max_paths:
                    self.stats.truncated += len(stack)
                    self.notes.append(f"path cap {self.max_paths} hit")
                    break
                self.prefix = stack.pop()
                self.pos = 0
                self.trail = []
                self.ndec = 0
                self.pending = []
                self.inputs_path = {}
                self.solver.push()
                try:
                    fn(self)
                    self.stats.paths += 1
                    if self.count_paths_as_cases:
                        # a case = one feasible path of this harness (one class of placements / one graph)
                        self.stats.hashes.add(hashlib.md5((self.name + "|path|" + repr(self.trail)).encode()).hexdigest())
                except Abort:
                    self.stats.aborted += 1
                except Truncated:
                    self.stats.truncated += 1
                except Inconclusive:
                    self.stats.unknown += 1
                finally:
                    self.solver.pop()
                stack.extend(self.pending)
        finally:
            _ENG = prev
        return self.stats.paths

    def assume(self, cond):
        cond = B(cond)
        self.solver.add(cond)
        if self.check() != "sat":
            raise Abort()

    # ---- the decision trail ------------------------------------------------------------------------
    # Entries: ("fork", bool, key) a branch both sides of which were feasible; ("eq"/"new", ...) a
    # concretisation choice -- these two steer the re-execution and are consumed strictly in order.
    # ("fd", bool, key) a forced branch, ("ask", answer, key), ("pick", value, key), ("pr", verdict, key)
    # are OPTIONAL memo entries: they only save solver work when the re-execution performs the same
    # operation (same key = structural hash of the term) at the same place.  z3 orders commutative
    # arguments by AST id, so a re-execution may simplify a term differently and take a syntactic
    # shortcut the first run did not (or the reverse): optional entries that do not match are skipped or
    # recomputed, never trusted for another term.
    OPTIONAL = ("fd", "ask", "pick", "pr")

    def _find_optional(self, kind, key):
        """a recorded optional entry (kind, key) before the next steering entry; consumes up to it"""
        q = self.pos
        while q < len(self.prefix):
            ent = self.prefix[q]
            if ent[0] not in self.OPTIONAL:
                return None
            if ent[0] == kind and ent[2] == key:
                self.pos = q + 1
                return ent
            q += 1
        return None

    def _next_steering(self, kinds):
        """the next steering entry (skipping optional leftovers) if it is one of `kinds`; consumes it"""
        q = self.pos
        while q < len(self.prefix):
            ent = self.prefix[q]
            if ent[0] in self.OPTIONAL:
                q += 1
                continue
            if ent[0] in kinds:
                self.pos = q + 1
                return ent
            return None
        return None

    def _at_end(self):
        return self.pos >= len(self.prefix)

    def _record(self, ent):
        if self._at_end():
            self.prefix = self.prefix + [ent]
            self.pos = len(self.prefix)
        self.trail.append(ent)

    @staticmethod
    def _key(term):
        try:
            return term.hash()
        except Exception:
            return 0

    def _next_prefix(self):  # kept for concretize()
        ent = self._next_steering(("eq", "new"))
        if ent is not None:
            return True, ent
        return False, None

    def decide(self, cond):
        cond = B(cond)
        self.ndec += 1
        if self.ndec > self.max_decisions:
            raise Truncated()
        key = self._key(cond)
        ent = self._find_optional("fd", key)
        if ent is not None:
            d = ent[1]
            self.solver.add(cond if d else z3.Not(cond))
            self.trail.append(ent)
            return d
        # a recorded fork with the same key right ahead?
        q = self.pos
        while q < len(self.prefix) and self.prefix[q][0] in self.OPTIONAL:
            q += 1
        if q < len(self.prefix) and self.prefix[q][0] == "fork" and self.prefix[q][2] == key:
            ent = self.prefix[q]
            self.pos = q + 1
            self.solver.add(cond if ent[1] else z3.Not(cond))
            self.trail.append(ent)
            return ent[1]
        rt = self.check(cond)
        rf = self.check(z3.Not(cond))
        if rt == "unknown" or rf == "unknown":
            raise Inconclusive()
        if rt == "sat" and rf == "sat":
            ent = self._next_steering(("fork",))  # recorded under another term form
            if ent is not None:
                d = ent[1]
                self.trail.append(ent)
            else:
                if not self._at_end():
                    # the recorded run did not fork here: follow the True side, the False side is queued as well
                    pass
                self.pending.append(self.trail + [("fork", False, key)])
                d = True
                self._record(("fork", True, key))
            self.solver.add(cond if d else z3.Not(cond))
            return d
        if rt == "sat":
            d = True
        elif rf == "sat":
            d = False
        else:
            raise Abort()
        self.solver.add(cond if d else z3.Not(cond))
        self._record(("fd", d, key))
        return d

    def ask(self, cond):
        """satisfiability of `cond` on the current path (memoised in the trail)"""
        cond = B(cond)
        key = self._key(cond)
        ent = self._find_optional("ask", key)
        if ent is not None:
            self.trail.append(ent)
            return ent[1]
        r = self.check(cond)
        self._record(("ask", r, key))
        return r

    def pick(self, term, *extra):
        """a value `term` can take on the current path (under `extra`); memoised in the trail"""
        t = T(term)
        key = self._key(t)
        ent = self._find_optional("pick", key)
        if ent is not None:
            self.trail.append(ent)
            return ent[1]
        r = self.check(*[B(x) for x in extra])
        if r == "unknown":
            raise Inconclusive()
        if r != "sat":
            raise Abort()
        val = self.solver.model().eval(t, model_completion=True).as_long()
        self._record(("pick", val, key))
        return val

    def concretize(self, x, why="", prefer=()):
        """fork on concrete values of x (at most fork_cap values per site)"""
        if not isinstance(x, SymInt):
            return int(x)
        self.ndec += 1
        if self.ndec > self.max_decisions:
            raise Truncated()
        have, d = self._next_prefix()
        if have:
            kind, val, excluded = d
            for v in excluded:
                self.solver.add(x.e != v)
            if kind == "eq":
                self.solver.add(x.e == val)
                self.trail.append(d)
                return val
            # kind == 'new': pick another value under the exclusions (this entry ends the prefix)
            self.prefix = self.prefix[: self.pos - 1]
            self.pos = len(self.prefix)
            return self._fresh_value(x, list(excluded), why, prefer)
        return self._fresh_value(x, [], why, prefer)

    def _fresh_value(self, x, excluded, why, prefer):
        val = None
        for p in prefer:
            if p not in excluded and self.check(x.e == p) == "sat":
                val = p
                break
        if val is None:
            r = self.check()
            if r == "unknown":
                raise Inconclusive()
            if r != "sat":
                raise Abort()
            val = self.solver.model().eval(x.e, model_completion=True).as_long()
            # prefer small magnitudes: try 0,1,2 first when feasible
            for p in (0, 1, 2, 3):
                if p not in excluded and p != val and self.check(x.e == p) == "sat":
                    val = p
                    break
        self.stats.forks += 1
        nexcl = excluded + [val]
        if len(nexcl) < self.fork_cap:
            # is another value possible at all?
            if self.check(*[x.e != v for v in nexcl]) == "sat":
                self.pending.append(self.trail + [("new", None, tuple(nexcl))])
        else:
            if self.check(*[x.e != v for v in nexcl]) == "sat":
                self.stats.fork_caps += 1
                self.notes.append(f"concretisation cap on {why}: values {nexcl} explored, others not")
        d = ("eq", val, tuple(excluded))
        self.solver.add(x.e == val)
        self._record(d)
        return val

    # ---- obligations -------------------------------------------------------
    def prove(self, cond, what="", detail=None):
        """True iff path /\\ not cond is unsat"""
        if isinstance(cond, bool):
            cond = z3.BoolVal(cond)
        cond = B(cond)
        key = (self._key(cond), what)
        ent = self._find_optional("pr", key)
        if ent is not None:
            self.trail.append(ent)
            return ent[1]
        ok = self._prove(cond, what, detail)
        self._record(("pr", ok, key))
        return ok

    def _prove(self, cond, what, detail):
        neg = z3.simplify(z3.Not(cond))
        st = self.stats
        st.obligations += 1
        if not z3.is_false(neg) and not z3.is_true(neg):
            st.nontrivial += 1
            st.hashes.add(hashlib.md5((self.name + "|" + what + "|" + neg.sexpr()).encode()).hexdigest())
        if z3.is_false(neg):
            st.discharged += 1
            return True
        r = self.check(neg)
        if r == "unsat":
            st.discharged += 1
            if len(self.smt_samples) < self.smt_keep:
                self.solver.push()
                self.solver.add(neg)
                try:
                    self.smt_samples.append(self.solver.to_smt2())
                finally:
                    self.solver.pop()
            if len(self.samples) < self.keep_samples:
                self.samples.append(
                    {
                        "harness": self.name,
                        "obligation": what,
                        "negated_goal": _short(neg),
                        "path_decisions": len(self.trail),
                        "verdict": "unsat",
                    }
                )
            return True
        if r == "sat":
            st.cex += 1
            if len(self.cexs) < self.max_cex:
                m = self.solver.model()
                # prefer a small model so that the replay can build the situation for real
                for bound in self.small_bounds:
                    hints = [z3.And(v <= bound, v >= -bound) for v in self.inputs.values()]
                    if hints and self.check(neg, *hints) == "sat":
                        m = self.solver.model()
                        break
                vals = {}
                for k, v in self.inputs.items():
                    ev = m.eval(v, model_completion=True)
                    vals[k] = ev.as_long() if z3.is_int_value(ev) else str(ev)
                self.cexs.append(
                    {
                        "harness": self.name,
                        "obligation": what,
                        "model": vals,
                        "detail": detail(m) if callable(detail) else detail,
                        "negated_goal": _short(neg),
                    }
                )
            return False
        st.unknown += 1
        self.notes.append(f"unknown: {what}")
        return False

    def model_value(self, m, x):
        ev = m.eval(T(x), model_completion=True)
        return ev.as_long()

    def reach(self, tag="end"):
        self.stats.reached += 1
        self.reach_tags[tag] = self.reach_tags.get(tag, 0) + 1

    def fail(self, what, detail=None):
        """an outcome on a feasible path that is itself a violation candidate"""
        return self.prove(z3.BoolVal(False), what, detail)

    def result(self):
        d = self.stats.as_dict()
        d.update(
            name=self.name,
            cexs=self.cexs,
            samples=self.samples,
            reach=self.reach_tags,
            notes=self.notes[:10],
            hashes=sorted(self.stats.hashes),
            smt=self.smt_samples,
        )
        return d


def default_smt_keep():
    import os

    return 2 if os.environ.get("VERIF_TIER") == "thorough" else 0


def _short(t, n=400):
    s = str(t).replace("\n", " ")
    s = " ".join(s.split())
    return s if len(s) <= n else s[:n] + " ..."


def lemma_and_mask():
    """L1: (x & -2^k) == x - (x mod 2^k) and (x & (2^k-1)) == x mod 2^k on 64-bit
    two's complement for k<=6 -- the rewriting SymInt.__and__ relies on.
    Returns (ok, seconds)."""
    t = time.time()
    x = z3.BitVec("x", 64)
    s = z3.Solver()
    bad = []
    for k in range(0, 7):
        a = 1 << k
        bad.append((x & z3.BitVecVal(-a, 64)) != x - z3.URem(x, z3.BitVecVal(a, 64)))
        bad.append((x & z3.BitVecVal(a - 1, 64)) != z3.URem(x, z3.BitVecVal(a, 64)))
    s.add(z3.Or(bad))
    r = str(s.check())
    return r == "unsat", time.time() - t
