"""layoutspec -- the documented binary layout as a reference model.

Written from Architecture.md, docs/architecture/types.rst and the wording of
property C05 (DESIGN.md appendix A) -- deliberately NOT from the attributes the
library computes (`_data_offset`, `field.offset`, `_strides` ...): it works on
the type AST of vx.typegen only.

  slot(x) = 8*ceil(x/8);  ld(a) = signed 64-bit word at address a.

Part 1 (`Walk`): address expressions and well-formedness facts as z3 terms over
an uninterpreted `ld` -- all objects of a type at once.
Part 2 (`decode`): byte-level decoder of concrete memory images.
"""
import struct as _struct

import z3

from .typegen import ISZ, static_size

NULL = -(2**63)
BIG = 2**62


def slot(x):
    if isinstance(x, int):
        return (x + 7) // 8 * 8
    return (x + 7) / 8 * 8  # z3 Int division (floor for positive divisor)


def is_dyn(t):
    return static_size(t) is None


def struct_plan(t):
    """-> (static field offsets {name: off}, offset-word positions {name: off} for 2nd.. dynamic
    fields, offset of the first dynamic field (= end of header), list of dynamic names)"""
    fields = t[2]
    dyn = [fn for fn, ft in fields if is_dyn(ft)]
    off = 8 if dyn else 0
    soff = {}
    for fn, ft in fields:
        s = static_size(ft)
        if s is not None:
            soff[fn] = off
            off += slot(s)
    words = {}
    for fn in dyn[1:]:
        words[fn] = off
        off += 8
    return soff, words, off, dyn


def array_plan(t):
    """-> dict(has_size, dyn axes, nd, data_offset, w, order)"""
    _, item, shape, order = t
    d = len(shape)
    dyn = [k for k, x in enumerate(shape) if x is None]
    isz = static_size(item)
    has_size = bool(dyn) or isz is None
    has_strides = bool(dyn) and d > 1
    data_offset = 8 * (int(has_size) + len(dyn) + (d if has_strides else 0))
    order = list(order) if order is not None else list(range(d))
    return dict(has_size=has_size, dyn=dyn, nd=d, data_offset=data_offset, w=isz if isz is not None else 8, isz=isz, order=order, has_strides=has_strides)


class Walk:
    """follows an access path; accumulates WF facts; tracks the containers (root object and every
    reference target) an access may legitimately touch"""

    def __init__(self, ld, root_type, buflo, bufhi):
        self.ld = ld
        self.wf = []
        self.idx = []
        self.icount = 0
        self.buflo, self.bufhi = buflo, bufhi
        self.containers = []
        self.nonlinear = False
        self._in_hdr = False
        self.subst = []  # (stride word, its value by WF): justified rewriting for mod-goals
        root_size = self.size_of(root_type, z3.IntVal(0))
        self.wf += [buflo <= 0, root_size <= bufhi, bufhi < BIG, buflo > -BIG, root_size >= 0]
        self.containers.append((z3.IntVal(0), root_size))
        self.cur_container = (z3.IntVal(0), root_size)

    def size_of(self, t, addr):
        """size term of a T object at addr, plus the object-level WF facts of that object"""
        s = static_size(t)
        if s is not None:
            return z3.IntVal(s)
        sz = self.ld(addr)
        if t[0] == "string":
            self.wf += [sz >= 9, sz < BIG]
        elif t[0] == "struct":
            _, _, hdr_end, _ = struct_plan(t)
            self.wf += [sz >= hdr_end, sz < BIG, sz % 8 == 0]
        elif t[0] == "array":
            self.wf += [sz >= 8, sz < BIG, sz % 8 == 0]
            if not self._in_hdr:
                self._in_hdr = True
                try:
                    p, dims, strides, nitems = self.array_hdr(t, addr)
                finally:
                    self._in_hdr = False
                if p["isz"] is not None:
                    self.wf.append(sz == slot(p["data_offset"] + p["w"] * nitems))
                else:
                    self.wf.append(sz >= p["data_offset"] + 8 * nitems)
        return sz

    def _inside(self, child_addr, child_t, parent_addr, parent_size):
        cs = self.size_of(child_t, child_addr)
        self.wf += [child_addr >= parent_addr, child_addr + cs <= parent_addr + parent_size]

    # -- struct ------------------------------------------------------------
    def field(self, t, base, fname):
        soff, words, hdr_end, dyn = struct_plan(t)
        ft = dict(t[2])[fname]
        size = self.size_of(t, base)
        if dyn:
            self.wf.append(size >= hdr_end)
        if fname in soff:
            return base + soff[fname], ft
        if fname == dyn[0]:
            addr = base + hdr_end
        else:
            o = self.ld(base + words[fname])
            self.wf += [o % 8 == 0, o >= hdr_end]
            addr = base + o
        self._inside(addr, ft, base, size)
        return addr, ft

    # -- array ---------------------------------------------------------------
    def array_hdr(self, t, base):
        p = array_plan(t)
        shape = t[2]
        off = 8 if p["has_size"] else 0
        dims = list(shape)
        for k in p["dyn"]:
            dims[k] = self.ld(base + off)
            self.wf += [dims[k] >= 0, dims[k] < BIG]
            off += 8
        strides = [None] * p["nd"]
        acc = p["w"]
        for ax in reversed(p["order"]):
            strides[ax] = acc
            acc = acc * dims[ax]
        nitems = 1
        for dd in dims:
            nitems = nitems * dd
        if len([x for x in dims if not isinstance(x, int)]) >= 1 and p["nd"] > 1:
            # A1 for multi-dimensional shapes: the byte count stays < 2^62 even when a zero
            # dimension is counted as 1 (excludes e.g. shape (2^62, 3, 0), whose partial
            # products overflow although the object is empty)
            nz = p["w"]
            for dd in dims:
                nz = nz * (dd if isinstance(dd, int) else z3.If(dd == 0, 1, dd))
            self.wf.append(nz < BIG)
        if p["has_strides"]:
            for k in range(p["nd"]):
                sw = self.ld(base + off)
                self.wf.append(sw == strides[k])
                self.subst.append((sw, strides[k] if not isinstance(strides[k], int) else z3.IntVal(strides[k])))
                strides[k] = sw
                off += 8
        assert off == p["data_offset"]
        if len(p["dyn"]) > 1 or (p["dyn"] and p["nd"] > 1 and any(not isinstance(x, int) for x in dims)):
            self.nonlinear = self.nonlinear or len([x for x in dims if not isinstance(x, int)]) > 1
        return p, dims, strides, nitems

    def index(self, t, base):
        p, dims, strides, nitems = self.array_hdr(t, base)
        size = self.size_of(t, base)
        ii = [z3.Int(f"i{self.icount + k}") for k in range(p["nd"])]
        self.icount += p["nd"]
        self.idx += ii
        for i, dd in zip(ii, dims):
            self.wf += [i >= 0, i < dd]
        pos = base + p["data_offset"] + sum(i * s for i, s in zip(ii, strides))
        item = t[1]
        if p["isz"] is not None:
            if p["has_size"]:
                self.wf.append(size == slot(p["data_offset"] + p["w"] * nitems))
            return pos, item
        table_end = p["data_offset"] + 8 * nitems
        self.wf.append(size >= table_end)
        e = self.ld(pos)
        self.wf += [e % 8 == 0, e >= table_end]
        addr = base + e
        self._inside(addr, item, base, size)
        return addr, item

    def alen(self, t, base):
        _, _, _, nitems = self.array_hdr(t, base)
        return nitems

    # -- references --------------------------------------------------------------
    def deref(self, t, slot_addr):
        rel = self.ld(slot_addr)
        target = slot_addr + rel
        tt = t[1]
        ts = self.size_of(tt, target)
        self.wf += [rel != NULL, target >= self.buflo, target + ts <= self.bufhi]
        self.containers.append((target, ts))
        return target, tt

    def union_typeid(self, slot_addr):
        return self.ld(slot_addr + 8)

    def union_member(self, slot_addr):
        return slot_addr + self.ld(slot_addr)


# ---------------------------------------------------------------------------
# Part 2: byte-level decoder (for the write-side checks)
FMT = {"Float64": "<d", "Float32": "<f", "Int64": "<q", "UInt64": "<Q", "Int32": "<i", "UInt32": "<I", "Int16": "<h", "UInt16": "<H", "Int8": "<b", "UInt8": "<B"}


class DecodeError(Exception):
    pass


class Decoder:
    """decodes a T object at `off` of a bytes-like memory image following the documented layout;
    records every part (kind, offset relative to the enclosing object) for the alignment claims"""

    def __init__(self, mem, getword=None):
        """mem: a bytes-like memory image, or an accessor with .word(a) / .bytes(a, n)
        (addresses may then be symbolic terms)"""
        self.acc = mem if hasattr(mem, "word") else None
        self.mem = mem
        self.parts = []  # (path, abs offset, parent abs offset)
        self.extent = {}

    def word(self, a):
        if self.acc is not None:
            return self.acc.word(a)
        if a < 0 or a + 8 > len(self.mem):
            raise DecodeError(f"word read outside memory at {a}")
        return _struct.unpack_from("<q", self.mem, a)[0]

    def raw(self, a, n, what):
        if self.acc is not None:
            return self.acc.bytes(a, n)
        if a < 0 or a + n > len(self.mem):
            raise DecodeError(f"{what} outside memory")
        return bytes(self.mem[a : a + n])

    def decode(self, t, off, path="$", parent=None):
        k = t[0]
        if parent is not None:
            self.parts.append((path, off, parent))
        if k == "scalar":
            n = ISZ[t[1]]
            return _struct.unpack(FMT[t[1]], self.raw(off, n, f"{path}: scalar"))[0]
        if k == "string":
            S = self.word(off)
            if S < 9:
                raise DecodeError(f"{path}: string size word {S} < 9")
            if S > (1 << 24):
                raise DecodeError(f"{path}: string size word {S} implausible")
            raw = self.raw(off + 8, S - 8, f"{path}: string")
            if b"\x00" not in raw:
                raise DecodeError(f"{path}: string not NUL terminated within its size")
            return raw[: raw.index(b"\x00")].decode("utf8")
        if k == "struct":
            soff, words, hdr_end, dyn = struct_plan(t)
            out = {}
            for fn, ft in t[2]:
                if fn in soff:
                    a = off + soff[fn]
                elif fn == dyn[0]:
                    a = off + hdr_end
                else:
                    a = off + self.word(off + words[fn])
                out[fn] = self.decode(ft, a, f"{path}.{fn}", off)
            return out
        if k == "array":
            p = array_plan(t)
            shape = list(t[2])
            a = off + (8 if p["has_size"] else 0)
            for kx in p["dyn"]:
                shape[kx] = self.word(a)
                a += 8
                if shape[kx] < 0:
                    raise DecodeError(f"{path}: negative dimension")
                if shape[kx] > (1 << 16):
                    raise DecodeError(f"{path}: dimension word {shape[kx]} implausible for the sample")
            strides = [None] * p["nd"]
            acc = p["w"]
            for ax in reversed(p["order"]):
                strides[ax] = acc
                acc *= shape[ax]
            if p["has_strides"]:
                for kx in range(p["nd"]):
                    sw = self.word(a)
                    a += 8
                    if sw != strides[kx]:
                        raise DecodeError(f"{path}: stride word {kx} = {sw}, layout says {strides[kx]}")
            import itertools

            def build(prefix, axes):
                if not axes:
                    pos = off + p["data_offset"] + sum(i * s for i, s in zip(prefix, strides))
                    if p["isz"] is not None:
                        # scalar items are packed at their item size; compound static items are parts
                        return self.decode(t[1], pos, f"{path}{list(prefix)}", off if t[1][0] != "scalar" else None)
                    e = self.word(pos)
                    return self.decode(t[1], off + e, f"{path}{list(prefix)}", off)
                return [build(prefix + (i,), axes[1:]) for i in range(axes[0])]

            return build((), shape)
        if k == "ref":
            rel = self.word(off)
            if rel == NULL:
                return None
            return self.decode(t[1], off + rel, path + "->", None)
        if k == "uref":
            rel = self.word(off)
            tid = self.word(off + 8)
            if rel == NULL:
                if tid != -1:
                    raise DecodeError(f"{path}: null union reference with member index {tid}")
                return None
            if not 0 <= tid < len(t[2]):
                raise DecodeError(f"{path}: member index {tid} out of range")
            return (tid, self.decode(t[2][tid], off + rel, path + "->", None))
        raise ValueError(t)

    def size_at(self, t, off):
        s = static_size(t)
        return s if s is not None else self.word(off)
