"""concrete differential replay for the generated C accessors: compile the real API with cffi
(ContextCpu), build a real object, and compare every in-range index of one generated function
with what the Python accessors report.  Returns 1 iff they disagree (property violated)."""
import itertools
import math
import sys

import numpy as np


def run(ast, c_name, pdesc, kind, dim=2, mode="address"):
    import cffi
    import xobjects as xo
    from vx import typegen as tg
    from vx.values import Gen, make

    ffi = cffi.FFI()
    cls = tg.build(ast)
    ctx = xo.ContextCpu()
    buf = ctx.new_buffer(capacity=1 << 16)
    buf.allocate(40)  # the object does not start at offset 0
    val = Gen(variant=0, dim=dim).sample(ast)
    obj = make(ast, val, _buffer=buf)
    end = buf.allocate(8)
    ctx.add_kernels(kernels=cls._gen_kernels())
    fun = getattr(ctx.kernels, c_name)
    raw = buf.buffer
    base = raw.ctypes.data + obj._offset
    bad = []

    def pyaddr(parent, last, idx):
        """address the Python accessors report for the element reached by `last` from `parent`"""
        if last[0] == "f":
            return parent._get_offset(last[1])
        if last[0] == "i":
            return parent._get_offset(idx)
        raise ValueError(last)

    def visit(cur, parent, last, lastidx, parts, idxs):
        if not parts:
            leaf(cur, parent, last, lastidx, idxs)
            return
        p = parts[0]
        if p[0] == "f":
            if p[2] in ("ref", "uref"):  # field holding a reference: keep the slot, dereference on 'r'
                visit(("slot", cur, p), cur, p, None, parts[1:], idxs)
            else:
                visit(getattr(cur, p[1]), cur, p, None, parts[1:], idxs)
        elif p[0] == "i":
            shape = [int(s) for s in cur._shape]
            for idx in itertools.product(*[range(s) for s in shape]):
                if p[2] in ("ref", "uref"):
                    visit(("slot", cur, p, idx), cur, p, idx, parts[1:], idxs + list(idx))
                else:
                    visit(cur[idx], cur, p, idx, parts[1:], idxs + list(idx))
        elif p[0] == "r":
            _, holder, hp = cur[0], cur[1], cur[2]
            target = getattr(holder, hp[1]) if hp[0] == "f" else holder[cur[3]]
            if target is None:
                return
            visit(target, None, ("t",), None, parts[1:], idxs)

    def leaf(cur, parent, last, lastidx, idxs):
        kw = {f"i{k}": int(v) for k, v in enumerate(idxs)}
        try:
            if kind == "len":
                got = fun(obj=obj, **kw)
                want = int(np.prod([int(s) for s in cur._shape]))
                if got != want:
                    bad.append((kw, f"C len {got} != Python {want}"))
                return
            if kind in ("typeid", "member"):
                # cur is a slot holder (union ref in field/item) or the union object itself
                if isinstance(cur, tuple):
                    holder, hp = cur[1], cur[2]
                    slot = holder._get_offset(hp[1]) if hp[0] == "f" else holder._get_offset(cur[3])
                    target = getattr(holder, hp[1]) if hp[0] == "f" else holder[cur[3]]
                else:
                    slot = cur._offset
                    target = cur.get()
                if kind == "typeid":
                    got = fun(obj=obj, **kw)
                    want = -1 if target is None else [t.__name__ for t in ucls(cur)._reftypes].index(target.__class__.__name__)
                    if got != want:
                        bad.append((kw, f"C typeid {got} != Python {want}"))
                else:
                    if target is None:
                        return
                    got = int(ffi.cast("intptr_t", fun(obj=obj, **kw))) - base
                    want = target._offset - obj._offset
                    if got != want:
                        bad.append((kw, f"C member address {got} != Python {want}"))
                return
            # element address as Python reports it
            if last[0] == "t":
                want_addr = cur._offset
            elif parent is None:
                want_addr = obj._offset
            else:
                want_addr = pyaddr(parent, last, lastidx)
            want_rel = int(want_addr) - obj._offset
            if kind == "getp":
                got = int(ffi.cast("intptr_t", fun(obj=obj, **kw))) - base
                if got != want_rel:
                    bad.append((kw, f"C address {got} != Python {want_rel}"))
            elif kind == "get":
                got = fun(obj=obj, **kw)
                want = cur
                if not (got == want or (isinstance(got, float) and math.isnan(got) and math.isnan(float(want)))):
                    bad.append((kw, f"C value {got} != Python {want}"))
            elif kind == "set":
                before = bytes(raw.tobytes())
                newv = type(cur)(77) if not isinstance(cur, (float, np.floating)) else type(cur)(77.25)
                fun(obj=obj, value=newv, **kw)
                after = bytes(raw.tobytes())
                n = cur.dtype.itemsize
                lo = int(want_addr)
                changed = [k for k in range(len(before)) if before[k] != after[k]]
                if any(not (lo <= k < lo + n) for k in changed):
                    bad.append((kw, f"C setter changed bytes {changed[:6]} outside the element [{lo},{lo+n})"))
                now = parent_value(parent, last, lastidx, cur)
                if now is not None and not now == newv:
                    bad.append((kw, f"Python reads {now} after C set of {newv}"))
                raw[:] = np.frombuffer(before, dtype="int8")
        except Exception as ex:  # noqa
            bad.append((kw, f"{type(ex).__name__}: {str(ex)[:100]}"))

    def ucls(cur):
        if isinstance(cur, tuple):
            holder, hp = cur[1], cur[2]
            if hp[0] == "f":
                return [f.ftype for f in holder._fields if f.name == hp[1]][0]
            return holder._itemtype
        return cur.__class__

    def parent_value(parent, last, lastidx, cur):
        if parent is None:
            return None
        if last[0] == "f":
            return getattr(parent, last[1])
        if last[0] == "i":
            return parent[lastidx]
        return None

    try:
        visit(obj, None, ("root",), None, list(pdesc), [])
    except Exception as ex:  # noqa
        print("replay walk raised", type(ex).__name__, ex)
        bad.append(({}, f"Python accessor raised {type(ex).__name__}: {str(ex)[:100]}"))
    if bad:
        print(f"VIOLATED: {c_name} disagrees with the Python accessors on {len(bad)} index tuples; first:", bad[0])
        return 1
    print(f"{c_name}: agrees with the Python accessors on every index of the sample object")
    return 0
