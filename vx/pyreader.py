"""pyreader -- run the REAL Python readers (`_from_buffer`, `Field.get_offset`,
`Array._get_offset`, `Ref._from_buffer`, `UnionRef._from_buffer`, `__len__`)
on a buffer whose every 64-bit word is the uninterpreted `ld(addr)`, with
symbolic indices: the address the Python accessors report, as a z3 term.

Models in play: S1 (Int64 codec on an LdBuffer returns ld(addr)), S5 (the int64
offset table returned by `Int64._array_from_buffer` models NumPy indexing:
k-tuple on a k-D array, negative wrap-around, IndexError otherwise; reshape of
a 1-D table and transpose)."""
import contextlib

import numpy as np
import z3

import xobjects as xo
import xobjects.array as xarray
import xobjects.scalar as xscalar
import xobjects.typeutils as xtypeutils
import xobjects.string as xstring
from xobjects.array import is_index
from xobjects.struct import is_field
from xobjects.ref import is_ref, is_unionref

from . import symx
from .symx import SymInt, T, mk
from .cgen import LD


class LdBuffer:
    """every word is ld(addr)"""

    context = None

    def __init__(self):
        self.loads = []

    def word(self, off):
        self.loads.append(T(off))
        return mk(LD(T(off), z3.IntVal(8)))


class SymTable:
    """model of the int64 ndarray NumPy would return for the offset table (S5)"""

    def __init__(self, buf, base, shape, strides=None):
        self.buf = buf
        self.base = base
        self.shape = list(shape)
        if strides is None:
            strides = []
            acc = 1
            for d in reversed(self.shape):
                strides.append(acc)
                acc = acc * d
            strides = list(reversed(strides))
        self.strides = list(strides)

    @property
    def ndim(self):
        return len(self.shape)

    def reshape(self, *shape):
        if len(shape) == 1 and isinstance(shape[0], (list, tuple)):
            shape = tuple(shape[0])
        if self.ndim != 1:
            raise symx.Abort()  # model limit: only reshape of the flat table
        return SymTable(self.buf, self.base, list(shape))

    def transpose(self, *axes):
        if len(axes) == 1 and not isinstance(axes[0], (int, np.integer)):
            axes = tuple(int(a) for a in axes[0])
        if len(axes) == 0:
            axes = tuple(reversed(range(self.ndim)))
        return SymTable(self.buf, self.base, [self.shape[a] for a in axes], [self.strides[a] for a in axes])

    @property
    def T(self):
        return self.transpose()

    def __len__(self):
        return int(self.shape[0])

    def __iter__(self):
        n = self.shape[0]
        if isinstance(n, SymInt):
            n = symx.engine().concretize(n, why="iterating the offset table")
        for k in range(n):
            yield self[k]

    def __getitem__(self, idx):
        if not isinstance(idx, tuple):
            idx = (idx,)
        if len(idx) > self.ndim:
            raise IndexError(f"too many indices for array: array is {self.ndim}-dimensional, but {len(idx)} were indexed")
        if len(idx) < self.ndim:
            raise symx.Abort()  # sub-array views are not needed by the readers
        pos = 0
        for i, d, s in zip(idx, self.shape, self.strides):
            if isinstance(i, slice):
                raise symx.Abort()
            if (i >= d) or (i < -d):
                raise IndexError("index out of bounds")
            if i < 0:
                i = i + d
            pos = pos + i * s
        return self.buf.word(self.base + 8 * pos)


_patched = []


@contextlib.contextmanager
def patched():
    """install the models for the duration of a check"""
    of, oaf = xscalar.NumpyScalar._from_buffer, xscalar.NumpyScalar._array_from_buffer
    oint = xtypeutils.is_integer

    def _from_buffer(self, buffer, offset=0):
        if isinstance(buffer, LdBuffer):
            if self._dtype == np.dtype("int64"):
                return buffer.word(offset)
            return ("leaf", self.__name__, offset)
        return of(self, buffer, offset)

    def _array_from_buffer(self, buffer, offset, count):
        if isinstance(buffer, LdBuffer):
            return SymTable(buffer, offset, [count])
        return oaf(self, buffer, offset, count)

    def is_integer(i):
        return isinstance(i, SymInt) or oint(i)

    xscalar.NumpyScalar._from_buffer = _from_buffer
    xscalar.NumpyScalar._array_from_buffer = _array_from_buffer
    saved = [(m, getattr(m, "is_integer")) for m in (xarray, xtypeutils, xstring) if hasattr(m, "is_integer")]
    for m, _ in saved:
        m.is_integer = is_integer
    try:
        yield
    finally:
        xscalar.NumpyScalar._from_buffer = of
        xscalar.NumpyScalar._array_from_buffer = oaf
        for m, f in saved:
            m.is_integer = f


def _compound(t):
    return hasattr(t, "_from_buffer") and (isinstance(t, (xo.struct.MetaStruct, xo.array.MetaArray)))


def walk(cls, path, buf, idx, kind):
    """follow `path` with the real readers from a view of `cls` at relative address 0.
    Returns the term the Python side reports for the C function of `kind`
    (get/set/getp: element address; len: item count; typeid; member: member address)."""
    cur = cls._from_buffer(buf, 0) if _compound(cls) else None
    curtype = cls
    addr = 0
    ic = 0
    parts = list(path[1:])
    if is_unionref(cls) and not parts:
        parts = []
    for part in parts:
        if is_field(part):
            ftype, off = part.get_offset(cur)
            addr = off
            curtype = ftype
            cur = ftype._from_buffer(buf, off) if _compound(ftype) else None
        elif is_index(part):
            nd = len(part.cls._shape)
            off = cur._get_offset(tuple(idx[ic : ic + nd]))
            ic += nd
            addr = off
            curtype = cur._itemtype
            cur = curtype._from_buffer(buf, off) if _compound(curtype) else None
        elif is_ref(part):
            tv = part._from_buffer(buf, addr)
            if tv is None:
                raise symx.Abort()  # null branch: outside WF
            addr = tv._offset
            cur = tv
            curtype = part._reftype
        else:
            pass  # class markers in the path
    if kind == "len":
        return cur.__len__()
    if kind in ("typeid", "member"):
        refoffset, typeid = xscalar.Int64._array_from_buffer(buf, addr, 2)
        if kind == "typeid":
            return typeid
        mv = curtype._from_buffer(buf, addr)
        if mv is None:
            raise symx.Abort()
        return mv._offset
    return addr
