"""hybrid ("Python-dressed") classes of the bounded grammar of C18/C19/C20

A spec is a hashable tuple
    ("hybrid", name, ((xoname, ftype, default), ...), ((xoname, pyname), ...))
where ftype is a typegen AST of a scalar, a string or an array of scalars, another spec (nested hybrid
class) or ("href", spec) (reference to a hybrid class); `default` is None or the declared default of a
scalar field.  The classes are built with the real MetaHybridClass.
"""
import numpy as np

import xobjects as xo
from xobjects.hybrid_class import MetaHybridClass

from . import typegen as tg, values as V

_cache = {}


def H(name, fields, rename=()):
    return ("hybrid", name, tuple((f + (None,))[:3] for f in fields), tuple(rename))


def href(spec):
    return ("href", spec)


def dval(d):
    """declared default as a python value (array defaults are kept as tuples in the hashable spec, the dictionary
    a nested hybrid field declares as its default as a tuple of (name, value) pairs)"""
    if is_factory(d):
        return dval(d[1])
    if isinstance(d, tuple) and d and isinstance(d[0], tuple) and isinstance(d[0][0], str):
        return {k: dval(x) for k, x in d}
    return list(d) if isinstance(d, tuple) else d


def is_factory(d):
    """("@factory", value): the field declares a default FACTORY returning that plain value"""
    return isinstance(d, tuple) and len(d) == 2 and d[0] == "@factory"


def is_h(x):
    return isinstance(x, tuple) and x and x[0] == "hybrid"


# derived hybrid classes: name -> spec of the hybrid class it subclasses (a module constant, so that a replay rebuilds the
# same hierarchy).  The derived class declares its own _xofields: other declared defaults, one more defaulted field.
BASE_HV = ("hybrid", "HVbase", ((("n", ("scalar", "Int64"), 1)), ("x", ("scalar", "Float64"), None)), ())
BASE_OF = {"HVder": BASE_HV}


def build_h(spec):
    if spec in _cache:
        return _cache[spec]
    _, name, fields, rename = spec
    xof = {}
    for fn, ft, dflt in fields:
        if is_h(ft):
            # a nested hybrid field that declares a default of its own is written with the struct of the nested class
            c = build_h(ft) if dflt is None else build_h(ft)._XoStruct
        elif ft[0] == "href":
            c = xo.Ref(build_h(ft[1])._XoStruct)
        else:
            c = tg.build(ft)
        if is_factory(dflt):
            xof[fn] = xo.Field(c, default_factory=(lambda x=dflt: dval(x)))
        else:
            xof[fn] = c if dflt is None else xo.Field(c, default=dval(dflt))
    data = {"_xofields": xof}
    if rename:
        data["_rename"] = dict(rename)
    cls = MetaHybridClass(name, (build_h(BASE_OF[name]),) if name in BASE_OF else (xo.HybridClass,), data)
    _cache[spec] = cls
    return cls


def xo_ast(spec):
    """the typegen AST of the underlying struct (names of the generated _XoStruct classes)"""
    _, name, fields, _ = spec
    out = []
    for fn, ft, _d in fields:
        if is_h(ft):
            out.append((fn, xo_ast(ft)))
        elif ft[0] == "href":
            out.append((fn, ("ref", xo_ast(ft[1]))))
        else:
            out.append((fn, ft))
    return ("struct", name + "Data", tuple(out))


def pyname(spec, fn):
    return dict(spec[3]).get(fn, fn)


def describe(spec):
    _, name, fields, rename = spec
    parts = []
    for fn, ft, d in fields:
        s = describe(ft) if is_h(ft) else ("Ref[" + describe(ft[1]) + "]" if ft[0] == "href" else tg.describe(ft))
        parts.append(f"{fn}:{s}" + (f"={d}" if d is not None else ""))
    r = "" if not rename else " rename " + ",".join(f"{a}->{b}" for a, b in rename)
    return f"hybrid {name}{{{','.join(parts)}}}{r}"


def has_href(spec):
    return any((is_h(ft) and has_href(ft)) or ft[0] == "href" for _, ft, _ in spec[2])


def make_h(spec, v, nested="dict", **kw):
    """construct through the hybrid constructor; v is keyed by xo names; a reference field is given a
    value (creates the target in the same buffer) or None; nested hybrids as dicts or as dressed objects"""
    cls = build_h(spec)
    args = {}
    for fn, ft, _d in spec[2]:
        if fn not in v:
            continue
        x = v[fn]
        if is_h(ft) and nested == "dressed":
            x = make_h(ft, x)
        args[pyname(spec, fn)] = x
    return cls(**args, **kw)


def _norm(ft, x):
    """a field value as delivered by a dressed attribute -> plain python"""
    if ft[0] == "scalar":
        return x.item() if hasattr(x, "item") else x
    if ft[0] == "string":
        return x
    if ft[0] == "array":
        if isinstance(x, np.ndarray):
            return x.tolist()
        return V.readback(ft, x)
    raise ValueError(ft)


def hread(spec, h):
    """everything through the dressed attributes -> plain python keyed by xo names"""
    out = {}
    for fn, ft, _d in spec[2]:
        x = getattr(h, pyname(spec, fn))
        if is_h(ft):
            out[fn] = hread(ft, x) if hasattr(x, "_xobject") else V.readback(xo_ast(ft), x)
        elif ft[0] == "href":
            if x is None:
                out[fn] = None
            elif hasattr(x, "_xobject"):
                out[fn] = hread(ft[1], x)
            else:
                out[fn] = V.readback(xo_ast(ft[1]), x)
        else:
            out[fn] = _norm(ft, x)
    return out


def expected(spec, v):
    """the value the object must read as; fields left out take their declared default (or zero/empty)"""
    t = xo_ast(spec)
    full = dict(v)
    for fn, ft, d in spec[2]:
        if fn not in full and d is not None:
            full[fn] = dval(d)
    return V.expected(t, full)


def hleaves(spec, v, path=()):
    """(path of xo names, leaf AST, value) of scalar/string leaves reachable without crossing a reference"""
    for fn, ft, _d in spec[2]:
        if is_h(ft):
            yield from hleaves(ft, v[fn], path + (fn,))
        elif ft[0] in ("scalar", "string"):
            yield path + (fn,), ft, v[fn]


def hget(spec, h, path):
    for fn in path:
        ft = next(f for n, f, _ in spec[2] if n == fn)
        h = getattr(h, pyname(spec, fn))
        if is_h(ft):
            spec = ft
    return h


def hset(spec, h, path, value):
    for fn in path[:-1]:
        ft = next(f for n, f, _ in spec[2] if n == fn)
        h = getattr(h, pyname(spec, fn))
        spec = ft[1] if ft[0] == "href" else ft
    setattr(h, pyname(spec, path[-1]), value)


def vset(v, path, value):
    """functional update of the python model"""
    if len(path) == 1:
        return dict(v, **{path[0]: value})
    return dict(v, **{path[0]: vset(v[path[0]], path[1:], value)})


# ---------------------------------------------------------------------------
def catalogue(tier="quick"):
    S = tg.S if hasattr(tg, "S") else None
    f64, i64, i32, i16, i8, u32 = (("scalar", n) for n in ("Float64", "Int64", "Int32", "Int16", "Int8", "UInt32"))
    STR = tg.STR

    def arr(item, shape, order=None):
        return ("array", item, tuple(shape), order)

    inn = H("In", [("x", i32), ("w", arr(f64, [None]))])
    inn2 = H("Leaf", [("p", f64, 2.5), ("q", arr(i16, [None])), ("s", STR)])
    stat = H("Pt", [("x", f64), ("y", i32, -3), ("v", arr(f64, [3]))])
    cat = [
        H("HA", [("n", i64, 5), ("x", f64), ("s", STR), ("a", arr(f64, [None])), ("m", arr(i16, [2, 3]))], rename=[("n", "nn")]),
        H("HB", [("k", i8), ("inner", inn), ("b", arr(u32, [3]))]),
        H("HC", [("r", href(inn)), ("k", i32, 7), ("inner", inn)], rename=[("r", "rr")]),
        H("HD", [("i1", inn2), ("i2", inn2), ("t", STR)], rename=[("i1", "first"), ("t", "title")]),
        H("HE", [("o", H("Mid", [("k", i8), ("leaf", inn2), ("u", f64, 0.5)])), ("z", arr(f64, [None, None])), ("c", i16)]),
        H("HF", [("p", stat), ("q", stat), ("f", f64, 1.5), ("g", i8)], rename=[("f", "ff")]),
        H("HG", [("r1", href(stat)), ("r2", href(inn)), ("a", arr(i8, [None]))]),
        # a declared default of a string field
        H("HS", [("s", STR, "abc"), ("n", i64, 3), ("t", STR)], rename=[("t", "tt")]),
        # declared defaults of dynamic array fields (a value of another length must not be compared by broadcasting)
        H("HK", [("v", arr(f64, [None]), (1.0, 1.0, 1.0)), ("w", arr(i16, [None]), (2, 2)), ("c", f64, 4.0), ("t", STR)], rename=[("w", "ww")]),
        # a class derived from another hybrid class (BASE_OF), with its own fields and declared defaults
        H("HVder", [("n", i64, 2), ("x", f64), ("y", f64, 0.5)]),
        # a nested hybrid class that holds a reference (the nested part is assigned from another buffer with the reference bound)
        H("HN", [("mid", H("MidR", [("r", href(inn)), ("k", i32)])), ("n", i32, 6)]),
        # default factories returning plain data (a list for a static array, a number)
        H("HFa", [("v", arr(f64, [3]), ("@factory", (1.0, 2.0, 3.0))), ("n", i32, ("@factory", 4)), ("s", STR), ("u", f64, 0.25)]),
        # a nested hybrid field that declares its OWN default (M11-C19: a nested object equal to the defaults of the
        # nested class is not equal to the default of the field)
        H("HP", [("n", i32), ("plain", stat), ("preset", stat, (("x", 5.0), ("y", 4), ("v", (1.0, 2.0, 0.0))))], rename=[("preset", "pre")]),
    ]
    if tier == "thorough":
        cat += [
            H("HH", [("c", arr(f64, [2, None], (1, 0))), ("s1", STR), ("s2", STR), ("e", inn)], rename=[("s1", "name")]),
            H("HI", [("deep", H("L1", [("l2", H("L2", [("leaf", inn2), ("n", i64, 9)])), ("a", arr(i32, [None]))])), ("k", u32, 4)]),
            H("HJ", [("x", f64), ("y", f64, -0.0), ("z", i64, 2**62)], rename=[("x", "ex"), ("y", "why")]),
        ]
    return [(describe(s), s) for s in cat]
