"""values -- concrete sample values for a type AST, the expected read-back and a generic
reader through the public accessors (used by replays and by the write-side checks).
Only needs xobjects + numpy + vx.typegen (replay scripts import it)."""
import itertools
import math

import numpy as np

from . import typegen as tg

NPT = {"Float64": np.float64, "Float32": np.float32, "Int64": np.int64, "UInt64": np.uint64, "Int32": np.int32, "UInt32": np.uint32, "Int16": np.int16, "UInt16": np.uint16, "Int8": np.int8, "UInt8": np.uint8}

EXTREMES = {
    "Float64": [0.0, -0.0, 1.5, -2.25, float("inf"), float("-inf"), float("nan"), 1.7976931348623157e308, 5e-324],
    "Float32": [0.0, -0.0, 1.5, -2.25, float("inf"), float("nan"), 3.4028234663852886e38],
    "Int64": [0, 1, -1, 2**63 - 1, -(2**63)],
    "UInt64": [0, 1, 2**64 - 1, 2**63],
    "Int32": [0, 1, -1, 2**31 - 1, -(2**31)],
    "UInt32": [0, 1, 2**32 - 1],
    "Int16": [0, 1, -1, 2**15 - 1, -(2**15)],
    "UInt16": [0, 1, 2**16 - 1],
    "Int8": [0, 1, -1, 127, -128],
    "UInt8": [0, 1, 255, 128],
}
STRINGS = ["", "a", "abcdefg", "abcdefgh", "abcdefghi", "héllo", "日本語", "x" * 17, "日本語の", "é" * 7]


class Gen:
    """deterministic value generator; `variant` selects boundary values, `dim` the size of
    dynamic axes (callable (depth)->int or int)"""

    def __init__(self, variant=0, dim=2, null_refs=False):
        self.c = itertools.count(1)
        self.variant = variant
        self.dim = dim
        self.null_refs = null_refs

    def n(self):
        return next(self.c)

    def sample(self, t, depth=0):
        k = t[0]
        if k == "scalar":
            i = self.n()
            if self.variant == 0:
                v = (i * 7) % 120 + 1
                return float(v) + 0.5 if t[1].startswith("Float") else v
            ex = EXTREMES[t[1]]
            return ex[(i + self.variant) % len(ex)]
        if k == "string":
            i = self.n()
            if self.variant == 0:
                # short ASCII / long ASCII (several slots) / multi-byte heavy (bytes >> characters)
                if i % 3 == 1:
                    return "s%d" % i + "x" * (i % 5)
                if i % 3 == 2:
                    return "name.%d." % i + "quadrupole.left"[: 9 + i % 7]
                return "\u00fc%d" % i + "\u65e5\u672c" * (i % 2 + 2)
            return STRINGS[(i + self.variant) % len(STRINGS)]
        if k == "struct":
            return {fn: self.sample(ft, depth + 1) for fn, ft in t[2]}
        if k == "array":
            dims = [d if d is not None else (self.dim(depth) if callable(self.dim) else self.dim) for d in t[2]]
            if depth >= 1 and self.variant == 0 and not callable(self.dim) and self.dim >= 2:
                # nested dynamic arrays get different lengths, so sibling items/fields have different sizes
                bump = self.n() % 2
                dims = [d if sd is not None else d + bump for d, sd in zip(dims, t[2])]
            if len(dims) > 1 and any(sd == 0 for sd in t[2]) and t[1][0] == "scalar":
                # a STATIC axis of length 0 in a multi-dimensional array of numbers: only an ndarray can say (0, n)
                import numpy as np

                return np.zeros([d if sd is not None else max(d, 1) for d, sd in zip(dims, t[2])], dtype=tg.build(t[1])._dtype)
            if len(dims) > 1 and 0 in dims:
                # a nested list can only express an empty LAST axis ([[],[]] has shape (2,0), [] is
                # ambiguous): other dynamic axes get length 2; if the last axis is static, no axis is empty
                if t[2][-1] is None:
                    dims = [(2 if x == 0 else x) for x in dims[:-1]] + [0]
                else:
                    dims = [(1 if x == 0 else x) for x in dims]

            def build(ds):
                if not ds:
                    return self.sample(t[1], depth + 1)
                return [build(ds[1:]) for _ in range(ds[0])]

            return build(dims)
        if k == "ref":
            if self.null_refs and self.n() % 2 == 0:
                return None
            return self.sample(t[1], depth + 1)
        if k == "uref":
            i = self.n()
            if self.null_refs and i % 3 == 0:
                return None
            m = t[2][i % len(t[2])]
            return (tg.build(m).__name__, self.sample(m, depth + 1))
        raise ValueError(t)


def expected(t, v):
    """what must be read back for input v (independent of the library: NumPy cast for scalars)"""
    k = t[0]
    if k == "scalar":
        return NPT[t[1]](v).item()
    if k == "string":
        return v
    if k == "struct":
        return {fn: expected(ft, v[fn]) for fn, ft in t[2]}
    if k == "array":
        nd = len(t[2])

        def rec(x, lvl):
            if lvl == nd:
                return expected(t[1], x)
            return [rec(y, lvl + 1) for y in x]

        return rec(v, 0)
    if k == "ref":
        return None if v is None else expected(t[1], v)
    if k == "uref":
        if v is None:
            return None
        name, data = v
        for m in t[2]:
            if tg.build(m).__name__ == name:
                return (name, expected(m, data))
        raise ValueError(name)
    raise ValueError(t)


def shape_of(t, v):
    nd = len(t[2])
    shape = []
    x = v
    for _ in range(nd):
        shape.append(len(x))
        x = x[0] if len(x) else []
    # static dims win (empty nesting loses information)
    return [d if d is not None else s for d, s in zip(t[2], shape)]


def readback(t, obj):
    """read everything through the public accessors -> plain python structure"""
    k = t[0]
    if k == "scalar":
        return obj.item() if hasattr(obj, "item") else obj
    if k == "string":
        return obj
    if k == "struct":
        return {fn: readback(ft, getattr(obj, fn)) for fn, ft in t[2]}
    if k == "array":
        shape = list(obj._shape)
        if len(shape) != len(t[2]) or any(not (0 <= int(d) <= 4096) for d in shape):
            raise ValueError(f"implausible shape {shape} read back (corrupted header?)")

        def rec(prefix, lvl):
            if lvl == len(shape):
                return readback(t[1], obj[tuple(prefix)] if len(prefix) > 1 else obj[prefix[0]])
            return [rec(prefix + [i], lvl + 1) for i in range(int(shape[lvl]))]

        return rec([], 0)
    if k == "ref":
        return None if obj is None else readback(t[1], obj)
    if k == "uref":
        if obj is None:
            return None
        name = obj.__class__.__name__
        for m in t[2]:
            if tg.build(m).__name__ == name:
                return (name, readback(m, obj))
        raise ValueError(f"member {name} not in union")
    raise ValueError(t)


def same(a, b):
    """structural equality, NaN == NaN, -0.0 != 0.0"""
    if isinstance(a, float) and isinstance(b, float):
        if math.isnan(a) and math.isnan(b):
            return True
        return a == b and math.copysign(1, a) == math.copysign(1, b)
    if isinstance(a, dict) and isinstance(b, dict):
        return a.keys() == b.keys() and all(same(a[k], b[k]) for k in a)
    if isinstance(a, (list, tuple)) and isinstance(b, (list, tuple)):
        return len(a) == len(b) and all(same(x, y) for x, y in zip(a, b))
    return type(a) == type(b) and a == b


def diff(a, b, path="$"):
    if isinstance(a, dict) and isinstance(b, dict) and a.keys() == b.keys():
        for k in a:
            d = diff(a[k], b[k], f"{path}.{k}")
            if d:
                return d
        return None
    if isinstance(a, (list, tuple)) and isinstance(b, (list, tuple)) and len(a) == len(b):
        for i, (x, y) in enumerate(zip(a, b)):
            d = diff(x, y, f"{path}[{i}]")
            if d:
                return d
        return None
    return None if same(a, b) else f"{path}: {a!r} != {b!r}"


def make(t, v, form=None, **kw):
    """construct the real object"""
    cls = tg.build(t)
    k = t[0]
    if k == "struct":
        if form in ("kwargs", "omit"):
            return cls(**v, **kw)  # keyword form of the struct constructor
        return cls(v, **kw)
    if k == "array":
        return cls(v, **kw)
    if k == "uref":
        return cls(**kw) if v is None else cls(*v, **kw)
    if k == "string":
        return cls(v, **kw)
    raise ValueError("not constructible alone: " + str(t[0]))


def read_top(t, obj):
    if t[0] == "uref":
        return readback(t, obj.get())
    if t[0] == "string":
        return obj.to_str()
    return readback(t, obj)


# ---------------------------------------------------------------------------
# access paths (used by the write-side scenarios)
def dims_of(t, v):
    """concrete dims of array value v of type t (static dims win)"""
    return shape_of(t, v)


def leaves(t, v, path=()):
    """yield (path, leaf type, leaf value); path steps: ('f', name) | ('i', index tuple).
    Reading a reference-typed field/item yields the target itself, so references add no step;
    a null reference is a leaf of its own."""
    k = t[0]
    if k in ("scalar", "string"):
        yield path, t, v
    elif k == "struct":
        for fn, ft in t[2]:
            yield from leaves(ft, v[fn], path + (("f", fn),))
    elif k == "array":
        dims = dims_of(t, v)
        for idx in itertools.product(*[range(d) for d in dims]):
            x = v
            for i in idx:
                x = x[i]
            yield from leaves(t[1], x, path + (("i", idx),))
    elif k == "ref":
        if v is None:
            yield path, t, None
        else:
            yield from leaves(t[1], v, path)
    elif k == "uref":
        if v is None:
            yield path, t, None
        else:
            name, data = v
            for m in t[2]:
                if tg.build(m).__name__ == name:
                    yield from leaves(m, data, path)


def compounds(t, v, path=()):
    """yield (path, type, value) of every compound node (struct/array), root first"""
    k = t[0]
    if k == "struct":
        yield path, t, v
        for fn, ft in t[2]:
            yield from compounds(ft, v[fn], path + (("f", fn),))
    elif k == "array":
        yield path, t, v
        dims = dims_of(t, v)
        for idx in itertools.product(*[range(d) for d in dims]):
            x = v
            for i in idx:
                x = x[i]
            yield from compounds(t[1], x, path + (("i", idx),))
    elif k == "ref" and v is not None:
        yield from compounds(t[1], v, path)
    elif k == "uref" and v is not None:
        name, data = v
        for m in t[2]:
            if tg.build(m).__name__ == name:
                yield from compounds(m, data, path)


def root_of(t, obj):
    return obj.get() if t[0] == "uref" else obj


def step(obj, st):
    if st[0] == "f":
        return getattr(obj, st[1])
    idx = st[1]
    return obj[idx if len(idx) > 1 else idx[0]]


def get_at(t, obj, path):
    cur = root_of(t, obj)
    for st in path:
        cur = step(cur, st)
    return cur


def set_at(t, obj, path, value):
    cur = root_of(t, obj)
    for st in path[:-1]:
        cur = step(cur, st)
    st = path[-1]
    if st[0] == "f":
        setattr(cur, st[1], value)
    else:
        idx = st[1]
        cur[idx if len(idx) > 1 else idx[0]] = value


def type_at(t, v, path):
    """(type, value) at a path (references are looked through)"""

    def thru(t, v):
        while t[0] in ("ref", "uref") and v is not None:
            if t[0] == "ref":
                t = t[1]
            else:
                name, data = v
                t = [m for m in t[2] if tg.build(m).__name__ == name][0]
                v = data
        return t, v

    t, v = thru(t, v)
    for st in path:
        if st[0] == "f":
            t, v = dict(t[2])[st[1]], v[st[1]]
        else:
            for i in st[1]:
                v = v[i]
            t = t[1]
        t, v = thru(t, v) if st is not path[-1] else (t, v)
    return t, v


def replace_at(t, v, path, new):
    """functional update of the plain-python value"""
    import copy

    v = copy.deepcopy(v)
    if not path:
        return new

    def thru(t, v):
        # returns (type, container holder, key) chain is awkward; operate by recursion instead
        raise NotImplementedError

    def rec(t, v, path):
        if t[0] == "ref":
            return rec(t[1], v, path)
        if t[0] == "uref":
            name, data = v
            m = [m for m in t[2] if tg.build(m).__name__ == name][0]
            return (name, rec(m, data, path))
        if not path:
            return new
        st = path[0]
        if st[0] == "f":
            ft = dict(t[2])[st[1]]
            v = dict(v)
            v[st[1]] = rec(ft, v[st[1]], path[1:]) if len(path) > 1 else new
            return v
        idx = st[1]

        def upd(x, idx):
            x = list(x)
            if len(idx) == 1:
                x[idx[0]] = rec(t[1], x[idx[0]], path[1:]) if len(path) > 1 else new
            else:
                x[idx[0]] = upd(x[idx[0]], idx[1:])
            return x

        return upd(v, idx)

    return rec(t, v, path)


def to_form(t, v, form):
    """re-express a plain-python sample in another accepted input form.
    'ndarray': every array of scalars becomes a contiguous ndarray of the item dtype;
    'ndarray_other': same with a different dtype (forces conversion) when the values allow it;
    'objarray': arrays of compound items become object ndarrays."""
    k = t[0]
    if form == "python":
        return v
    if k == "struct":
        return {fn: to_form(ft, v[fn], form) for fn, ft in t[2]}
    if k == "array":
        dims = dims_of(t, v)
        if t[1][0] == "scalar" and form in ("ndarray", "ndarray_other"):
            dt = NPT[t[1][1]]
            arr = np.array(v, dtype=dt).reshape(dims)
            if form == "ndarray_other":
                alt = np.float64 if dt is not np.float64 else np.float32
                a2 = arr.astype(alt)
                if (a2.astype(dt) == arr).all():
                    return a2
            return arr
        if form == "objarray" and t[1][0] in ("struct", "array", "string"):
            out = np.empty(dims, dtype=object)
            for idx in itertools.product(*[range(d) for d in dims]):
                x = v
                for i in idx:
                    x = x[i]
                out[idx] = to_form(t[1], x, form)
            return out
        nd = len(t[2])

        def rec(x, lvl):
            if lvl == nd:
                return to_form(t[1], x, form)
            return [rec(y, lvl + 1) for y in x]

        return rec(v, 0)
    if k == "ref":
        return None if v is None else to_form(t[1], v, form)
    if k == "uref":
        if v is None:
            return None
        name, data = v
        m = [m for m in t[2] if tg.build(m).__name__ == name][0]
        return (name, to_form(m, data, form))
    return v


def static_size_of(t):
    return tg.static_size(t)
