"""cgen -- the generated C accessor source, exactly as a context would compile
it, translated to z3 terms (one CFun per generated function).

Pipeline: real `sources_from_classes(sort_classes([T]))` -> real headers of the
target -> real `specialize_source(..., target)` -> `gcc -E -P` (target keywords
defined away; `__global` mapped to the marker qualifier `volatile` so that the
address-space qualifier survives into the AST) -> pycparser -> evaluator.

C semantics assumed (S10): LP64, char = 1 byte, pointer arithmetic scales by
the pointee size, integer arithmetic as mathematical integers plus a separate
in-range obligation for every sub-expression (no wrap-around is modelled:
signed overflow is undefined behaviour, so it is an obligation, not a value).
`ld(addr, width)` is uninterpreted: all objects of the type at once.
"""
import subprocess

import z3
from pycparser import c_ast, c_parser

import xobjects as xo
from xobjects.context import _concatenate_sources, sort_classes, sources_from_classes
from xobjects.specialize_source import specialize_source

TARGETS = ("cpu_serial", "cpu_openmp", "opencl", "cuda")
MARK = "volatile"  # stands for __global in the AST

CPU_PRELUDE = (
    "typedef long int64_t; typedef int int32_t; typedef short int16_t; typedef signed char int8_t; "
    "typedef unsigned long uint64_t; typedef unsigned int uint32_t; typedef unsigned short uint16_t; "
    "typedef unsigned char uint8_t;\n"
)

# LP64 base types: (size, kind)
BASE = {
    ("char",): (1, "i"),
    ("signed", "char"): (1, "i"),
    ("unsigned", "char"): (1, "u"),
    ("short",): (2, "i"),
    ("signed", "short"): (2, "i"),
    ("unsigned", "short"): (2, "u"),
    ("int",): (4, "i"),
    ("signed", "int"): (4, "i"),
    ("unsigned", "int"): (4, "u"),
    ("unsigned",): (4, "u"),
    ("long",): (8, "i"),
    ("signed", "long"): (8, "i"),
    ("unsigned", "long"): (8, "u"),
    ("long", "long"): (8, "i"),
    ("signed", "long", "long"): (8, "i"),
    ("unsigned", "long", "long"): (8, "u"),
    ("float",): (4, "f"),
    ("double",): (8, "f"),
    ("void",): (1, "v"),
}

LD = z3.Function("ld", z3.IntSort(), z3.IntSort(), z3.IntSort())  # ld(addr, +-width): value of the word at addr


def ld8(a):
    return LD(a, z3.IntVal(8))


class Untranslatable(Exception):
    pass


def real_source(classes, target):
    """the text a context of that target hands to its compiler"""
    classes = sort_classes(list(classes))
    cls_sources = sources_from_classes(classes)
    if target in ("cpu_serial", "cpu_openmp"):
        # mirrors ContextCpu._build_sources (the method needs a context instance; the include
        # lines are dropped below and replaced by CPU_PRELUDE)
        headers = ["#include <stdint.h>"]
        if target == "cpu_openmp":
            headers = ["#include <omp.h>"] + headers
        source, folders = _concatenate_sources(headers + cls_sources)
    elif target == "opencl":
        from xobjects.context_pyopencl import openclheader

        source, folders = _concatenate_sources(list(openclheader) + cls_sources)
    elif target == "cuda":
        from xobjects.context_cupy import cudaheader

        source, folders = _concatenate_sources(list(cudaheader) + cls_sources)
        source = "\n".join(['extern "C"{', source, "}"])
    else:
        raise ValueError(target)
    return specialize_source(source, specialize_for=target, search_in_folders=list(folders))


def preprocess(spec_source, target):
    lines = []
    for ln in spec_source.splitlines():
        s = ln.strip()
        if s.startswith("#include"):
            continue
        if s == 'extern "C"{':
            continue
        lines.append(ln)
    text = "\n".join(lines)
    if target == "cuda" and text.rstrip().endswith("}"):
        # closing brace of extern "C"
        text = text.rstrip()[:-1]
    defs = ["-Drestrict=", "-Dinline=", "-Dstatic="]
    if target == "opencl":
        defs += [f"-D__global={MARK}", "-D__kernel="]
    if target == "cuda":
        defs += ["-D__device__=", "-D__global__="]
    p = subprocess.run(["gcc", "-E", "-P", "-std=c99", "-"] + defs, input=text, capture_output=True, text=True)
    if p.returncode != 0:
        raise Untranslatable("preprocessor: " + p.stderr[:200])
    out = p.stdout
    if target in ("cpu_serial", "cpu_openmp"):
        out = CPU_PRELUDE + out
    return out


def host_syntax_check(spec_source, target):
    """auxiliary, concrete (not a solver verdict): the specialised text is accepted by a host C
    compiler once the target keywords are defined away"""
    text = spec_source
    if target == "cuda":
        text = text.replace('extern "C"{', "", 1)
        text = text.rstrip()
        if text.endswith("}"):
            text = text[:-1]
    defs = []
    if target == "opencl":
        defs += ["-D__global=", "-D__kernel=", "-DXOBJ_STDINT_DUMMY"]
    if target == "cuda":
        defs += ["-D__device__=static inline", "-D__global__="]
    if target == "cpu_openmp":
        text = text.replace("#include <omp.h>", "")
    p = subprocess.run(
        ["gcc", "-std=gnu99", "-fsyntax-only", "-Wall", "-Wno-unused-function", "-Werror=implicit-function-declaration", "-x", "c", "-"] + defs,
        input=text,
        capture_output=True,
        text=True,
    )
    return p.returncode == 0, p.stderr[:400]


class Ptr:
    __slots__ = ("off", "elsize", "kind", "tname")

    def __init__(self, off, elsize, kind, tname):
        self.off, self.elsize, self.kind, self.tname = off, elsize, kind, tname


class TypeEnv:
    def __init__(self):
        self.typedefs = {}  # name -> ('base', size, kind) | ('objptr', structname, marked)

    def resolve(self, node):
        """-> (is_ptr, info) where info = (size, kind, name)"""
        if isinstance(node, (c_ast.Typename, c_ast.Decl, c_ast.Typedef)):
            return self.resolve(node.type)
        if isinstance(node, c_ast.PtrDecl):
            isp, info = self.resolve(node.type)
            if isp:
                raise Untranslatable("pointer to pointer")
            return True, info
        if isinstance(node, c_ast.TypeDecl):
            return self.resolve(node.type)
        if isinstance(node, c_ast.IdentifierType):
            names = tuple(n for n in node.names)
            if len(names) == 1 and names[0] in self.typedefs:
                td = self.typedefs[names[0]]
                if td[0] == "objptr":
                    return True, (1, "o", names[0])
                return False, (td[1], td[2], names[0])
            key = names
            if key in BASE:
                sz, kd = BASE[key]
                return False, (sz, kd, " ".join(names))
            raise Untranslatable(f"unknown type {' '.join(names)}")
        if isinstance(node, c_ast.Struct):
            return False, (1, "s", "struct " + str(node.name))
        if isinstance(node, c_ast.Enum):
            return False, (4, "i", "enum")
        raise Untranslatable(f"type node {type(node).__name__}")

    def add_typedef(self, td):
        isp, info = self.resolve(td.type)
        if isp and info[1] == "s":
            marked = MARK in (td.type.type.quals or [])
            self.typedefs[td.name] = ("objptr", info[2], marked)
        elif isp:
            raise Untranslatable(f"typedef of pointer {td.name}")
        else:
            self.typedefs[td.name] = ("base", info[0], info[1])


class CFun:
    def __init__(self, fdef, tenv):
        self.name = fdef.decl.name
        self.tenv = tenv
        self.env = {}
        self.params = []
        self.stores = []
        self.loads = []
        self.subexprs = []
        self.ret = None
        self.error = None
        self.events = []  # order of loads/stores
        ftype = fdef.decl.type
        self.ret_isptr, self.ret_info = tenv.resolve(ftype.type)
        try:
            for p in ftype.args.params if ftype.args else []:
                if isinstance(p, c_ast.Typename) and p.name is None:
                    continue  # (void)
                isp, info = tenv.resolve(p)
                if isp and info[1] == "o":
                    self.env[p.name] = Ptr(z3.IntVal(0), None, "o", info[2])  # the object pointer: relative address 0
                    self.params.append((p.name, "obj", info))
                elif isp:
                    raise Untranslatable("pointer parameter")
                else:
                    self.env[p.name] = z3.Int(("val_" if info[1] == "f" else "") + p.name)
                    self.params.append((p.name, "val", info))
            self.block(fdef.body)
        except Untranslatable as ex:
            self.error = str(ex)
        except (KeyError, AttributeError, TypeError, AssertionError) as ex:
            self.error = f"{type(ex).__name__}: {ex}"

    # statements ---------------------------------------------------------
    def block(self, body):
        for st in body.block_items or []:
            self.stmt(st)

    def stmt(self, st):
        if self.ret is not None:
            raise Untranslatable("statement after return")
        if isinstance(st, c_ast.Decl):
            isp, info = self.tenv.resolve(st)
            v = self.expr(st.init) if st.init is not None else None
            if isp:
                if not isinstance(v, Ptr):
                    raise Untranslatable("pointer initialised from integer")
                v = Ptr(v.off, info[0] if info[1] != "o" else None, info[1], info[2])
            self.env[st.name] = v
        elif isinstance(st, c_ast.Assignment):
            r = self.expr(st.rvalue)
            if isinstance(st.lvalue, c_ast.ID):
                cur = self.env[st.lvalue.name]
                if isinstance(cur, Ptr) or isinstance(r, Ptr):
                    raise Untranslatable("pointer assignment")
                if st.op == "=":
                    v = r
                elif st.op == "+=":
                    v = cur + r
                elif st.op == "-=":
                    v = cur - r
                elif st.op == "*=":
                    v = cur * r
                else:
                    raise Untranslatable(f"assignment {st.op}")
                self.subexprs.append(v)
                self.env[st.lvalue.name] = v
            elif isinstance(st.lvalue, c_ast.UnaryOp) and st.lvalue.op == "*":
                if st.op != "=":
                    raise Untranslatable("compound store")
                p = self.expr(st.lvalue.expr)
                if not isinstance(p, Ptr) or p.elsize is None:
                    raise Untranslatable("store through opaque pointer")
                self.stores.append((p.off, p.elsize, p.kind, p.tname, r))
                self.events.append("S")
            else:
                raise Untranslatable("lvalue form")
        elif isinstance(st, c_ast.Return):
            self.ret = self.expr(st.expr) if st.expr is not None else "void"
        elif isinstance(st, c_ast.Compound):
            self.block(st)
        elif isinstance(st, c_ast.EmptyStatement):
            pass
        else:
            raise Untranslatable(f"statement {type(st).__name__}")

    # expressions -----------------------------------------------------------
    def load(self, p, index=None):
        if not isinstance(p, Ptr) or p.elsize is None:
            raise Untranslatable("load through opaque pointer")
        addr = p.off if index is None else p.off + index * p.elsize
        self.loads.append((addr, p.elsize, p.kind, p.tname))
        self.events.append("L")
        return LD(addr, z3.IntVal(p.elsize if p.kind != "f" else -p.elsize))

    def expr(self, e):
        if isinstance(e, c_ast.Constant):
            if e.type not in ("int", "long int", "long long int", "unsigned int", "unsigned long int"):
                raise Untranslatable(f"constant {e.type}")
            return z3.IntVal(int(e.value.rstrip("lLuU"), 0))
        if isinstance(e, c_ast.ID):
            return self.env[e.name]
        if isinstance(e, c_ast.BinaryOp):
            a, b = self.expr(e.left), self.expr(e.right)
            if isinstance(a, Ptr) or isinstance(b, Ptr):
                if isinstance(b, Ptr):
                    if e.op != "+" or isinstance(a, Ptr):
                        raise Untranslatable("pointer arithmetic form")
                    a, b = b, a
                if e.op not in ("+", "-"):
                    raise Untranslatable("pointer arithmetic op")
                if a.elsize is None:
                    raise Untranslatable("arithmetic on opaque pointer")
                d = b * a.elsize
                self.subexprs.append(d)
                return Ptr(a.off + d if e.op == "+" else a.off - d, a.elsize, a.kind, a.tname)
            if e.op == "+":
                v = a + b
            elif e.op == "-":
                v = a - b
            elif e.op == "*":
                v = a * b
            else:
                raise Untranslatable(f"operator {e.op}")
            self.subexprs.append(v)
            return v
        if isinstance(e, c_ast.UnaryOp):
            if e.op == "*":
                return self.load(self.expr(e.expr))
            if e.op == "-":
                v = -self.expr(e.expr)
                return v
            raise Untranslatable(f"unary {e.op}")
        if isinstance(e, c_ast.ArrayRef):
            p = self.expr(e.name)
            i = self.expr(e.subscript)
            return self.load(p, i)
        if isinstance(e, c_ast.Cast):
            v = self.expr(e.expr)
            isp, info = self.tenv.resolve(e.to_type)
            if isp:
                if not isinstance(v, Ptr):
                    raise Untranslatable("integer cast to pointer")
                return Ptr(v.off, info[0] if info[1] != "o" else None, info[1], info[2])
            if isinstance(v, Ptr):
                raise Untranslatable("pointer cast to integer")
            return v
        raise Untranslatable(f"expression {type(e).__name__}")


class QualVisitor(c_ast.NodeVisitor):
    """collects, for every pointer type in the translation unit, whether its pointee carries
    the marker qualifier"""

    def __init__(self):
        self.ptrs = []  # (marked, context)

    def visit_PtrDecl(self, node):
        t = node.type
        marked = isinstance(t, c_ast.TypeDecl) and MARK in (t.quals or [])
        base = t.type if isinstance(t, c_ast.TypeDecl) else t
        if isinstance(base, c_ast.IdentifierType):
            what = " ".join(base.names)
        elif isinstance(base, c_ast.Struct):
            what = "struct " + str(base.name)
        else:
            what = type(base).__name__
        self.ptrs.append((marked, what))
        self.generic_visit(node)


class Unit:
    def __init__(self, classes, target):
        self.target = target
        self.spec_source = real_source(classes, target)
        self.text = preprocess(self.spec_source, target)
        self.ast = c_parser.CParser().parse(self.text)
        self.tenv = TypeEnv()
        self.funs = {}
        self.fun_ptr_quals = {}
        self.typedef_marked = {}
        self.errors = []
        for ext in self.ast.ext:
            try:
                if isinstance(ext, c_ast.Typedef):
                    self.tenv.add_typedef(ext)
                    td = self.tenv.typedefs[ext.name]
                    if td[0] == "objptr":
                        self.typedef_marked[ext.name] = td[2]
                elif isinstance(ext, c_ast.FuncDef):
                    f = CFun(ext, self.tenv)
                    self.funs[f.name] = f
                    qv = QualVisitor()
                    qv.visit(ext)
                    self.fun_ptr_quals[f.name] = qv.ptrs
            except Untranslatable as ex:
                self.errors.append(str(ex))
