"""typegen -- bounded catalogue of type expressions (enumerated, never "all").

AST (tuples):
  ('scalar', 'Float64')
  ('string',)
  ('struct', name, ((fname, T), ...))
  ('array', T, shape, order)        shape: ints / None (dynamic); order: tuple or None (C order)
  ('ref', T)
  ('uref', name, (T, ...))
build(ast) creates the real xobjects classes, with fresh names (assumption A2:
names inside one catalogue entry are unique).
"""
import itertools
import random

import xobjects as xo

SCALARS = ["Float64", "Float32", "Int64", "UInt64", "Int32", "UInt32", "Int16", "UInt16", "Int8", "UInt8"]
ISZ = {"Float64": 8, "Float32": 4, "Int64": 8, "UInt64": 8, "Int32": 4, "UInt32": 4, "Int16": 2, "UInt16": 2, "Int8": 1, "UInt8": 1}

_counter = itertools.count()


def fresh(prefix):
    return f"{prefix}{next(_counter)}"


def sc(name):
    return ("scalar", name)


STR = ("string",)


def struct(fields, prefix="S"):
    return ("struct", fresh(prefix), tuple(fields))


def array(item, shape, order=None):
    return ("array", item, tuple(shape), tuple(order) if order is not None else None)


def ref(t):
    return ("ref", t)


def uref(members, prefix="U"):
    return ("uref", fresh(prefix), tuple(members))


_cache = {}


DEFAULTS = {}  # (struct name, field name) -> declared default of a scalar field


def build(ast):
    """AST -> real xobjects class (memoised per AST node identity by value)"""
    key = ast
    if key in _cache:
        return _cache[key]
    k = ast[0]
    if k == "scalar":
        cls = getattr(xo, ast[1])
    elif k == "string":
        cls = xo.String
    elif k == "struct":
        data = {fn: (xo.Field(build(ft), default=DEFAULTS[(ast[1], fn)]) if (ast[1], fn) in DEFAULTS else build(ft)) for fn, ft in ast[2]}
        cls = type(ast[1], (xo.Struct,), data)
    elif k == "array":
        _, item, shape, order = ast
        icls = build(item)
        if order is None:
            idx = tuple(slice(None) if d is None else d for d in shape)
        else:
            idx = tuple(slice(d, o) for d, o in zip(shape, order))
        if len(idx) == 1:
            idx = idx[0]
        cls = icls[idx]
        if named_marker(item):
            # a user-named subclass of the array class (`class Refs(xo.Ref[T][3]): pass`), as the library's own tests write
            cls = type("Named" + cls.__name__, (cls,), {})
    elif k == "ref":
        cls = xo.Ref(build(ast[1]))
    elif k == "uref":
        cls = type(ast[1], (xo.UnionRef,), {"_reftypes": [build(t) for t in ast[2]]})
    else:
        raise ValueError(ast)
    _cache[key] = cls
    return cls


def named_marker(item):
    """arrays whose item type is (a reference to) a struct/union named NS... are built as named subclasses of the array class;
    the mark lives in the AST so that replay scripts rebuild the same classes"""
    while item[0] == "ref":
        item = item[1]
    return item[0] in ("struct", "uref") and item[1].startswith("NS")


def describe(ast):
    k = ast[0]
    if k == "scalar":
        return ast[1]
    if k == "string":
        return "String"
    if k == "struct":
        return ast[1] + "{" + ",".join(f"{fn}:{describe(ft)}" for fn, ft in ast[2]) + "}"
    if k == "array":
        sh = ",".join(":" if d is None else str(d) for d in ast[2])
        o = "" if ast[3] is None else ";order=" + "".join(map(str, ast[3]))
        return f"{describe(ast[1])}[{sh}{o}]" + ("(named subclass)" if named_marker(ast[1]) else "")
    if k == "ref":
        return f"Ref[{describe(ast[1])}]"
    if k == "uref":
        return ast[1] + "<" + "|".join(describe(t) for t in ast[2]) + ">"


def static_size(ast):
    """size from the documented layout; None = dynamic"""
    k = ast[0]
    slot = lambda x: (x + 7) // 8 * 8
    if k == "scalar":
        return ISZ[ast[1]]
    if k == "string":
        return None
    if k == "ref":
        return 8
    if k == "uref":
        return 16
    if k == "struct":
        tot = 0
        for _, ft in ast[2]:
            s = static_size(ft)
            if s is None:
                return None
            tot += slot(s)
        return tot
    if k == "array":
        s = static_size(ast[1])
        if s is None or any(d is None for d in ast[2]):
            return None
        n = 1
        for d in ast[2]:
            n *= d
        return slot(s * n)


def has_ref(ast):
    k = ast[0]
    if k in ("ref", "uref"):
        return True
    if k == "struct":
        return any(has_ref(ft) for _, ft in ast[2])
    if k == "array":
        return has_ref(ast[1])
    return False


def orders(nd):
    return list(itertools.permutations(range(nd)))


# ---------------------------------------------------------------------------
def dyn_struct(prefix="T"):
    """a small dynamically sized struct"""
    return struct([("v", sc("Float64")), ("w", array(sc("Int8"), (None,)))], prefix)


def sta_struct(prefix="P"):
    return struct([("x", sc("Int32")), ("y", sc("Float64"))], prefix)


def catalogue(tier="quick", seed=0):
    """list of (label, ast); every constructor, every item kind, 1-3 dims with static/dynamic
    masks, all axis orders up to 3-D, nesting depth <= 3"""
    F64, I8, I32, I16, U8, F32, I64, U64, U16, U32 = (sc(n) for n in ("Float64", "Int8", "Int32", "Int16", "UInt8", "Float32", "Int64", "UInt64", "UInt16", "UInt32"))
    cat = []
    # arrays of scalars: masks x orders
    cat.append(array(F64, (None,)))
    cat.append(array(I8, (5,)))
    cat.append(array(I16, (None, 3)))
    for o in orders(2):
        cat.append(array(I32, (4, 5), o))
        cat.append(array(F32, (None, None), o))
        cat.append(array(U8, (3, None), o))
    for o in orders(3):
        cat.append(array(F64, (None, 3, None), o))
        cat.append(array(I16, (2, 3, 4), o))
    cat.append(array(I64, (None, None, None), (2, 0, 1)))
    cat.append(array(U16, (2, None, 4), (1, 2, 0)))
    # arrays of compound static items
    cat.append(array(sta_struct(), (3,)))
    cat.append(array(sta_struct(), (None, 2), (1, 0)))
    cat.append(array(array(F64, (2, 2)), (None,)))
    # arrays of dynamic items
    cat.append(array(dyn_struct(), (None,)))
    cat.append(array(dyn_struct(), (2, None), (1, 0)))
    cat.append(array(dyn_struct(), (None, 2)))
    cat.append(array(STR, (3,)))
    cat.append(array(STR, (None,)))
    cat.append(array(array(F64, (None,)), (3,)))
    cat.append(array(array(I32, (None, None), (1, 0)), (None,)))
    cat.append(array(dyn_struct(), (2, 2, None), (2, 0, 1)))
    # structs
    cat.append(struct([("a", F64), ("b", I8), ("c", U64)]))
    cat.append(struct([("x", I8), ("a", array(F64, (None,))), ("p", sta_struct()), ("s", STR), ("q", array(sta_struct(), (3,)))]))
    cat.append(struct([("n", I32), ("b", array(dyn_struct(), (None, None), (1, 0))), ("a", array(F64, (None, 3, None), (1, 2, 0)))]))
    cat.append(struct([("s1", STR), ("s2", STR), ("k", U32), ("m", array(I16, (2, 3), (1, 0)))]))
    inner = struct([("h", I16), ("d", array(F32, (None,))), ("e", array(U8, (None, 2)))], "N")
    cat.append(struct([("i", inner), ("j", inner), ("z", I64)]))
    cat.append(struct([("aa", array(array(I8, (None,)), (None,))), ("t", dyn_struct())]))
    # four dynamic fields, two pairs of the same type (offset words for the 2nd..4th; equal-size redistribution)
    cat.append(struct([("p", array(F64, (None,))), ("k", I32), ("q", array(F64, (None,))), ("s", STR), ("u", STR)], "Q"))
    # a zero-length static array next to a dynamic array of the same item type and rank (distinct classes, distinct names)
    cat.append(struct([("e", array(F64, (0,))), ("d", array(F64, (None,))), ("n", I64)], "Z"))
    cat.append(array(struct([("p", array(I16, (None,))), ("q", array(I16, (None,))), ("r", array(I16, (None,)))], "Q"), (None,)))
    # references
    t1 = dyn_struct()
    p1 = sta_struct()
    cat.append(struct([("r", ref(t1)), ("v", F64)], "R"))
    cat.append(struct([("r", ref(p1)), ("ar", array(ref(sta_struct()), (None,))), ("a", array(F64, (None,)))], "R"))
    cat.append(struct([("u", uref([sta_struct(), dyn_struct()])), ("n", I32)], "R"))
    cat.append(struct([("rr", ref(array(F64, (None, None), (1, 0)))), ("ra", ref(array(dyn_struct(), (None,)))), ("s", STR)], "R"))
    # the same member classes in two unions, at different member positions
    pm, tm = sta_struct(), dyn_struct()
    cat.append(struct([("u1", uref([pm, tm])), ("u2", uref([tm, pm])), ("n", I32), ("au", array(uref([tm, pm]), (None,)))], "R"))
    cat.append(array(ref(dyn_struct()), (2, None), (1, 0)))
    cat.append(array(uref([sta_struct(), array(I32, (None,))]), (None,)))
    cat.append(uref([sta_struct(), dyn_struct(), array(F64, (None,))]))
    hold = struct([("r", ref(sta_struct()))], "H")
    cat.append(array(hold, (2,)))
    cat.append(struct([("h", array(hold, (None,))), ("q", I8)], "R"))
    # user-named subclasses of array classes (items: references, dynamic structs) -- M10-C08
    cat.append(struct([("refs", array(ref(struct([("x", I32), ("y", F64)], "NS")), (3,))), ("k", I64)], "R"))
    cat.append(array(ref(struct([("v", F64), ("w", array(I8, (None,)))], "NS")), (None,)))
    cat.append(struct([("a", array(struct([("v", F64), ("w", array(I8, (None,)))], "NS"), (None,))), ("s", STR)]))
    # declared (non-zero) defaults of scalar fields next to dynamic fields
    dd = struct([("x", F64), ("n", I64), ("s", STR), ("a", array(F64, (None,))), ("k", I8)], "D")
    DEFAULTS[(dd[1], "x")] = 1.5
    DEFAULTS[(dd[1], "n")] = 5
    cat.append(dd)
    out = [(describe(a), a) for a in cat]
    if tier == "thorough":
        rng = random.Random(seed)
        for k in range(360):
            a = random_type(rng, 3 if k % 3 else 4)
            if a[0] in ("scalar", "string", "ref"):
                a = struct([("f", a), ("g", random_type(rng, 2))])
            out.append((describe(a), a))
    return out


def random_type(rng, depth):
    kinds = ["scalar", "scalar", "string", "struct", "array", "array", "ref", "uref"]
    if depth <= 0:
        kinds = ["scalar", "scalar", "string"]
    k = rng.choice(kinds)
    if k == "scalar":
        return sc(rng.choice(SCALARS))
    if k == "string":
        return STR
    if k == "struct":
        n = rng.randint(1, 4)
        return struct([(f"f{i}", random_type(rng, depth - 1)) for i in range(n)])
    if k == "array":
        nd = rng.choice([1, 1, 2, 2, 3])
        shape = [rng.choice([None, None, 1, 2, 3]) for _ in range(nd)]
        order = rng.choice(orders(nd))
        item = random_type(rng, depth - 1)
        return array(item, shape, order if rng.random() < 0.7 else None)
    if k == "ref":
        t = random_type(rng, depth - 1)
        while t[0] not in ("struct", "array"):
            t = random_type(rng, max(depth - 1, 1))
        return ref(t)
    if k == "uref":
        ms = []
        for _ in range(rng.randint(1, 3)):
            t = random_type(rng, depth - 1)
            while t[0] not in ("struct", "array"):
                t = random_type(rng, max(depth - 1, 1))
            ms.append(t)
        # member names must be unique inside a union (A2)
        names = set()
        ms2 = []
        for t in ms:
            nm = build(t).__name__
            if nm not in names:
                names.add(nm)
                ms2.append(t)
        return uref(ms2)


def renamed(ast, suffix):
    """the same type expression with fresh struct / union names (fresh classes when built)"""
    k = ast[0]
    if k == "struct":
        return ("struct", ast[1] + suffix, tuple((fn, renamed(ft, suffix)) for fn, ft in ast[2]))
    if k == "array":
        return ("array", renamed(ast[1], suffix), ast[2], ast[3])
    if k == "ref":
        return ("ref", renamed(ast[1], suffix))
    if k == "uref":
        return ("uref", ast[1] + suffix, tuple(renamed(m, suffix) for m in ast[2]))
    return ast
