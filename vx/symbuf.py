"""symbuf -- buffers whose *placement* is symbolic.

`make_symbuffer(kind)` derives from the real `BufferNumpy` / `BufferByteArray`
and overrides only the storage primitives (model S9); `allocate`, `free`,
`grow`, `update_from_xbuffer`, `get_free` are the inherited real methods.

Memory is a write log per storage object:
    ("st", addr_term, cells)                 a store of len(cells) bytes
    ("cp", dst_term, src_mem, src_term, len) a block copy (growth, to_native)
A cell is an int (0..255), a `W` (byte k of a symbolic little-endian word) or
`P` (poison: never written since the buffer came into our hands -- arbitrary
prior content).  Reads resolve newest-to-oldest; whether a record can overlap
the read, and at which constant distance, is decided by the solver on the
current path (ambiguous aliasing forks the path).
"""
import contextlib

import numpy as np
import z3

import xobjects.array as xarray
import xobjects.scalar as xscalar
import xobjects.string as xstring
import xobjects.typeutils as xtypeutils
from xobjects.context import XBuffer, Chunk
from xobjects.context_cpu import BufferNumpy, BufferByteArray

from . import symx
from .symx import SymInt, T, mk

POISON_BYTE = 0xA5
WORD_BYTE = 0x5A
P = "P"
BIG = 2**62


class W:
    """byte k of a symbolic word of `width` bytes"""

    __slots__ = ("term", "k", "width")

    def __init__(self, term, k, width):
        self.term, self.k, self.width = term, k, width

    def __repr__(self):
        return f"W({self.term},{self.k})"


def word_cells(value, width=8):
    return [W(T(value), k, width) for k in range(width)]


def int_cells(value, width=8):
    return list(int(value).to_bytes(width, "little", signed=True))


class CellBytes(bytearray):
    """bytearray that remembers the cells it was rendered from (symbolic words, poison)"""

    cells = None


def render(cells):
    b = CellBytes(bytes((c if isinstance(c, int) else (POISON_BYTE if c is P else WORD_BYTE)) for c in cells))
    b.cells = list(cells)
    return b


def clean_word(cells, width):
    """the symbolic word the cells spell, or None"""
    c0 = cells[0]
    if isinstance(c0, W) and c0.k == 0 and c0.width == width and len(cells) == width:
        if all(isinstance(c, W) and c.term is c0.term and c.k == k for k, c in enumerate(cells)):
            return mk(c0.term)
    return None


class World:
    """everything that happens on one path: journal of stores, region events, statistics"""

    def __deepcopy__(self, memo):  # the analysis world is not part of any object's state
        return self

    def __init__(self):
        self.journal = []  # (mem, addr_term, n)
        self.events = []  # ("alloc"|"free", buffer, off, size)
        self.stats = dict(poison_cells=0, alias_forks=0, reads=0, stores=0, torn_words=0)
        self.buffers = []

        self.regions = []  # (id, off term, size int) of allocations / reserved explicit regions
        self._disj = {}
        self._rcache = {}
        self._dcache = {}

    def mark(self):
        return len(self.journal), len(self.events)

    # -- cheap alias pre-filter: accesses are classified by the allocation they fall in --------
    def add_region(self, off, size):
        if isinstance(size, SymInt):
            return None
        self.regions.append((len(self.regions), T(off), int(size)))
        return len(self.regions) - 1

    def region_of(self, addr, n):
        """id of the region [off, off+size) that syntactically contains [addr, addr+n), else None"""
        key = (addr.get_id(), n, len(self.regions))
        hit = self._rcache.get(key)
        if hit is not None:
            return hit[1]
        r = self._region_of(addr, n)
        self._rcache[key] = (addr, r)  # the term is kept alive: z3 reuses the ids of freed ASTs
        return r

    def _region_of(self, addr, n):
        for rid, off, size in reversed(self.regions):
            d = z3.simplify(addr - off)
            if z3.is_int_value(d):
                c = d.as_long()
                if 0 <= c and c + n <= size:
                    return rid
                return None
        return None

    def region_vs_copy(self, rid, rec):
        """'in' / 'out' if the whole region provably lies inside / outside the range a block copy (growth)
        filled, else None; one or two queries per (region, copy record) and path"""
        key = ("cp", rid, id(rec))
        if key in self._disj:
            return self._disj[key]
        _, off, size = self.regions[rid]
        _, dst, smem, saddr, ln = rec
        e = symx.engine()
        r = None
        if e.ask(z3.Not(z3.And(off >= dst, off + size <= dst + ln))) == "unsat":
            r = "in"
        elif e.ask(z3.Not(z3.Or(off + size <= dst, off >= dst + ln))) == "unsat":
            r = "out"
        self._disj[key] = r
        return r

    def disjoint(self, ra, rb):
        """proved on the current path: regions ra and rb do not overlap (one query per pair and path)"""
        key = (ra, rb) if ra < rb else (rb, ra)
        r = self._disj.get(key)
        if r is None:
            _, oa, sa = self.regions[ra]
            _, ob, sb = self.regions[rb]
            r = symx.engine().ask(z3.Not(z3.Or(oa + sa <= ob, ob + sb <= oa))) == "unsat"
            self._disj[key] = r
        return r


class MemView:
    """storage[start:]: shares the storage, starts at `start`"""

    def __init__(self, mem, start):
        self.mem, self.start = mem, start


class Mem:
    def __init__(self, world, background, name):
        self.world = world
        self.background = background
        self.name = name
        self.log = []

    def __getitem__(self, key):
        """storage[start:] as used when a pointer into the storage is formed (kernel arguments)"""
        if isinstance(key, slice) and key.stop is None and key.step is None:
            return MemView(self, 0 if key.start is None else key.start)
        raise TypeError("only storage[start:] is modelled")

    def __deepcopy__(self, memo):
        """a byte-for-byte copy of the storage (what serialising the buffer's array gives): same history, no sharing"""
        m = Mem(self.world, self.background, self.name + "~")
        m.log = list(self.log)
        return m

    def store(self, addr, cells):
        if not cells:
            return
        a = T(addr)
        self.log.append(("st", a, list(cells), self.world.region_of(a, len(cells))))
        self.world.journal.append((self, a, len(cells), len(self.log) - 1))
        self.world.stats["stores"] += 1

    def _dist(self, addr, so, n, ln):
        ck = (addr.get_id(), so.get_id())
        hit = self.world._dcache.get(ck)
        if hit is None:
            d = z3.simplify(addr - so)
            if z3.is_int_value(d):
                d = d.as_long()
            self.world._dcache[ck] = (addr, so, d)  # terms kept alive: z3 reuses the ids of freed ASTs
        else:
            d = hit[2]
        if isinstance(d, int):
            return d if -n < d < ln else None
        e = symx.engine()
        for _ in range(64):
            overlap = z3.And(d > -n, d < ln)
            r = e.ask(overlap)
            if r == "unknown":
                # an undecided aliasing question must not be read as "no overlap": the path is inconclusive
                raise symx.Inconclusive()
            if r != "sat":
                return None
            dv = e.pick(d, overlap)
            before = len(e.pending)
            if e.decide(d == dv):
                if len(e.pending) > before:
                    self.world.stats["alias_forks"] += 1
                return dv
        raise symx.Truncated()

    def read(self, addr, n, upto=None):
        """cells at [addr, addr+n); with `upto`, as they were before log record number `upto` was appended"""
        addr = T(addr)
        out = [None] * n
        need = n
        self.world.stats["reads"] += 1
        rid = self.world.region_of(addr, n)
        for rec in reversed(self.log if upto is None else self.log[:upto]):
            if rec[0] == "st":
                _, so, cells, srid = rec
                if rid is not None and srid is not None and rid != srid and self.world.disjoint(rid, srid):
                    continue
                d = self._dist(addr, so, n, len(cells))
                if d is None:
                    continue
                for k in range(n):
                    j = d + k
                    if out[k] is None and 0 <= j < len(cells):
                        out[k] = cells[j]
                        need -= 1
            else:
                _, dst, smem, saddr, ln = rec
                e = symx.engine()
                inside = z3.And(addr >= dst, addr + n <= dst + ln)
                outside = z3.Or(addr + n <= dst, addr >= dst + ln)
                where = self.world.region_vs_copy(rid, rec) if rid is not None else None
                if where == "out":
                    continue
                if where == "in" or e.decide(inside):
                    sub = smem.read(saddr + (addr - dst), n)
                    for k in range(n):
                        if out[k] is None:
                            out[k] = sub[k]
                    need = 0
                elif not e.decide(outside):
                    # the read straddles an end of the block copy: the cells still missing (typically padding the
                    # writers never touch) are resolved in runs, halving a run until it lies inside or outside
                    runs = []
                    k = 0
                    while k < n:
                        if out[k] is None:
                            k1 = k
                            while k1 < n and out[k1] is None:
                                k1 += 1
                            runs.append((k, k1))
                            k = k1
                        else:
                            k += 1
                    budget = [256]
                    while runs:
                        k0, k1 = runs.pop()
                        budget[0] -= 1
                        if budget[0] < 0:
                            raise symx.Truncated()
                        a0, ln0 = addr + k0, k1 - k0
                        if e.decide(z3.And(a0 >= dst, a0 + ln0 <= dst + ln)):
                            sub = smem.read(saddr + (a0 - dst), ln0)
                            for j in range(ln0):
                                out[k0 + j] = sub[j]
                        elif e.decide(z3.Or(a0 + ln0 <= dst, a0 >= dst + ln)):
                            continue  # stays missing: earlier records / background
                        else:
                            mid = (k0 + k1) // 2
                            runs += [(k0, mid), (mid, k1)]
                    need = sum(1 for x in out if x is None)
            if need == 0:
                return out
        for k in range(n):
            if out[k] is None:
                if self.background == "zero":
                    out[k] = 0
                else:
                    out[k] = P
                    self.world.stats["poison_cells"] += 1
        return out


class SymCtx:
    """context object of symbolic buffers (identity is what update_from_xbuffer dispatches on)"""

    minimum_alignment = 1
    nplike_array_type = np.ndarray

    def __init__(self, world, kind="BufferNumpy", name="ctx"):
        self.world = world
        self.kind = kind
        self.name = name

    def nparray_to_context_array(self, a):
        return a

    def nparray_from_context_array(self, a):
        return a

    def new_buffer(self, capacity=1048576):
        return fresh_buffer(self.world, capacity, ctx=self, kind=self.kind)

    def __repr__(self):
        return f"<SymCtx {self.name}>"


class WBArray(np.ndarray):
    """what to_nplike() of a symbolic buffer hands out: an ndarray that ALIASES the buffer bytes it covers, as the
    real typed views do -- every element assignment through it (or through a view/transposition/slice of it) is
    written back to the write-log"""

    _wb = None

    def __array_finalize__(self, obj):
        self._wb = None

    def _root(self):
        a = self
        while a is not None:
            if getattr(a, "_wb", None) is not None:
                return a
            a = getattr(a, "base", None)
        return None

    def __setitem__(self, key, value):
        np.ndarray.__setitem__(self, key, value)
        r = self._root()
        if r is not None:
            buf, off, dtype = r._wb
            flat = np.asarray(r).reshape(-1)
            if flat.dtype == object:
                cells = []
                for x in flat:
                    cells += word_cells(x, dtype.itemsize) if isinstance(x, SymInt) else list(np.array(x).astype(dtype).tobytes())
                buf.buffer.store(off, cells)
            else:
                buf.buffer.store(off, list(flat.astype(dtype).tobytes()))


_classes = {}


def make_symbuffer(kind):
    if kind in _classes:
        return _classes[kind]
    base = {"BufferNumpy": BufferNumpy, "BufferByteArray": BufferByteArray}[kind]

    class SymBuffer(base):
        _is_symbuffer = True

        def __init__(self, world, cap, chunks, alignment=1, grow_step=None, background="poison", ctx=None, name="b"):
            self.world = world
            self.name = name
            self._depth = 0
            self.regions = []
            self.freed = []
            self._bg = "zero"
            XBuffer.__init__(self, capacity=0, context=ctx if ctx is not None else SymCtx(world, kind), default_alignment=alignment, grow_step=grow_step)
            self.buffer = Mem(world, background, name)
            self.capacity = cap
            self.chunks = [Chunk(s, en) for s, en in chunks]
            world.buffers.append(self)

        def _make_context(self):
            return SymCtx(self.world, kind)

        # ---- allocator: the real methods, recorded ------------------------------
        def allocate(self, size, align=True):
            self._depth += 1
            try:
                off = base.allocate(self, size, align)
            finally:
                self._depth -= 1
            if self._depth == 0:
                self.regions.append((off, size))
                self.world.events.append(("alloc", self, off, size))
                self.world.add_region(off, size)
            return off

        def free(self, offset, size):
            base.free(self, offset, size)
            self.freed.append((offset, size))
            self.world.events.append(("free", self, offset, size))

        # ---- storage primitives (model S9) --------------------------------------
        def _new_buffer(self, capacity):
            return Mem(self.world, "zero", getattr(self, "name", "b") + "'")

        def copy_to_native(self, dest, dest_offset, source_offset, nbytes):
            dest.log.append(("cp", T(dest_offset), self.buffer, T(source_offset), T(nbytes)))

        def to_native(self, offset, nbytes):
            m = Mem(self.world, "zero", self.name + "/native")
            m.log.append(("cp", z3.IntVal(0), self.buffer, T(offset), T(nbytes)))
            return m

        def update_from_native(self, offset, source, source_offset, nbytes):
            n = symx.engine().concretize(nbytes, why="update_from_native length") if isinstance(nbytes, SymInt) else int(nbytes)
            if isinstance(source, Mem):
                cells = source.read(source_offset, n)
            else:  # a python buffer (memoryview of an ndarray ...)
                cells = list(bytes(source)[int(source_offset) : int(source_offset) + n])
            self.buffer.store(offset, cells)

        def update_from_buffer(self, offset, source):
            cells = getattr(source, "cells", None)
            if cells is None:
                cells = list(bytes(source))
            self.buffer.store(offset, cells)

        def update_from_nplike(self, offset, dest_dtype, value):
            value = np.array(value)
            if dest_dtype != value.dtype:
                value = value.astype(dest_dtype)
            self.buffer.store(offset, list(value.flatten().tobytes()))

        def to_bytearray(self, offset, nbytes):
            n = symx.engine().concretize(nbytes, why="to_bytearray length") if isinstance(nbytes, SymInt) else int(nbytes)
            return render(self.buffer.read(offset, n))

        def to_nplike(self, offset, dtype, shape):
            dtype = np.dtype(dtype)
            shape = [int(s) for s in shape]
            count = int(np.prod(shape)) if len(shape) else 1
            cells = self.buffer.read(offset, count * dtype.itemsize)
            if any(isinstance(c, W) for c in cells):
                vals = []
                w = dtype.itemsize
                for k in range(count):
                    cs = cells[k * w : (k + 1) * w]
                    v = clean_word(cs, w)
                    if v is None:
                        if any(isinstance(c, W) for c in cs):
                            self.world.stats["torn_words"] += 1
                        v = np.frombuffer(bytes(render(cs)), dtype=dtype)[0]
                    vals.append(v)
                arr = np.empty(count, dtype=object)
                for k, v in enumerate(vals):
                    arr[k] = v
                out = arr.reshape(*shape).view(WBArray)
            else:
                out = np.frombuffer(bytearray(render(cells)), dtype=dtype).reshape(*shape).view(WBArray)
            out._wb = (self, offset, dtype)
            return out

        to_nparray = to_nplike

        def to_pointer_arg(self, offset, nbytes):
            raise NotImplementedError("kernel arguments are outside the storage model (C17)")

        def __repr__(self):
            return f"<Sym{kind} {self.name}>"

    SymBuffer.__name__ = "Sym" + kind
    _classes[kind] = SymBuffer
    return SymBuffer


def fresh_buffer(world, capacity, ctx=None, kind="BufferNumpy", alignment=1, grow_step=None, name="fresh"):
    """what context.new_buffer(capacity) gives: zeroed storage, one free chunk"""
    cls = make_symbuffer(kind)
    return cls(world, capacity, [(0, capacity)], alignment=alignment, grow_step=grow_step, background="zero", ctx=ctx, name=name)


def arbitrary_buffer(e, world, tag="", N=1, alignment=1, grow_step=None, kind="BufferNumpy", ctx=None, nonempty=True, roomy=None):
    """a pre-existing buffer after an arbitrary history: symbolic capacity, N symbolic free chunks
    satisfying the allocator's representation invariant, poisoned contents"""
    cap = e.sym("cap" + tag)
    cons = [cap.e >= 0, cap.e < BIG]
    cs = []
    prev = None
    for i in range(N):
        s, en = e.sym(f"s{i}{tag}"), e.sym(f"e{i}{tag}")
        cons += [s.e >= 0, (s.e < en.e) if nonempty else (s.e <= en.e), en.e <= cap.e]
        if prev is not None:
            cons.append(s.e > prev.e)
        prev = en
        cs.append((s, en))
    if roomy and cs:
        cons.append(cs[0][1].e - cs[0][0].e >= roomy + 64)  # bound: the first chunk serves the whole scenario
    gs = None
    if grow_step == "sym":
        gs = e.sym("gs" + tag)
        cons += [gs.e >= 1, gs.e < BIG]
    elif grow_step is not None:
        gs = grow_step
    e.assume(z3.And(cons))
    cls = make_symbuffer(kind)
    return cls(world, cap, cs, alignment=alignment, grow_step=gs, background="poison", ctx=ctx, name="b" + tag)


# ---------------------------------------------------------------------------
def _has_sym(x):
    if isinstance(x, SymInt):
        return True
    if isinstance(x, np.ndarray) and x.dtype == object:
        return any(isinstance(v, SymInt) for v in x.flat)
    if isinstance(x, (list, tuple)):
        return any(_has_sym(v) for v in x)
    return False


@contextlib.contextmanager
def patched():
    """S1/S2: the Int64 codec stores/loads symbolic words atomically on symbolic buffers;
    `is_integer` accepts proxies.  Everything else is the unmodified library."""
    NS = xscalar.NumpyScalar
    o_to, o_from, o_ato = NS._to_buffer, NS._from_buffer, NS._array_to_buffer
    o_int = xtypeutils.is_integer

    def _to_buffer(self, buffer, offset, value, info=None):
        if isinstance(value, SymInt) and getattr(buffer, "_is_symbuffer", False):
            buffer.buffer.store(offset, word_cells(value, self._size))
            return
        return o_to(self, buffer, offset, value, info)

    def _from_buffer(self, buffer, offset=0):
        if getattr(buffer, "_is_symbuffer", False):
            data = buffer.to_bytearray(offset, self._size)
            w = clean_word(data.cells, self._size)
            if w is not None:
                return w
            if any(isinstance(c, W) for c in data.cells):
                buffer.world.stats["torn_words"] += 1
            return np.frombuffer(bytes(data), dtype=self._dtype)[0]
        return o_from(self, buffer, offset)

    def _array_to_buffer(self, buffer, offset, value):
        if getattr(buffer, "_is_symbuffer", False) and _has_sym(value):
            flat = list(np.asarray(value, dtype=object).flatten()) if not isinstance(value, (list, tuple)) else list(value)
            cells = []
            for v in flat:
                cells += word_cells(v, self._size) if isinstance(v, SymInt) else int_cells(v, self._size)
            buffer.buffer.store(offset, cells)
            return
        return o_ato(self, buffer, offset, value)

    def is_integer(i):
        return isinstance(i, SymInt) or o_int(i)

    NS._to_buffer, NS._from_buffer, NS._array_to_buffer = _to_buffer, _from_buffer, _array_to_buffer
    saved = [(m, m.is_integer) for m in (xarray, xtypeutils, xstring) if hasattr(m, "is_integer")]
    for m, _ in saved:
        m.is_integer = is_integer
    try:
        yield
    finally:
        NS._to_buffer, NS._from_buffer, NS._array_to_buffer = o_to, o_from, o_ato
        for m, f in saved:
            m.is_integer = f
