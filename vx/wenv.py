"""wenv -- one scenario, two worlds.

A *scenario* (checks/wmode.py) is ordinary Python that builds objects through
the public constructors, reads, writes and copies them, and states its
obligations through an `Env`:

  SymEnv   buffers are `vx.symbuf` buffers whose capacity, free list, explicit
           offsets and growth amounts are z3 integers; every obligation is
           discharged by the solver on every feasible path (= for every
           placement on that path).
  ConcEnv  the same scenario on real `BufferNumpy` / `BufferByteArray` objects,
           with the symbolic inputs replaced by the values of a solver model
           (replay of a counterexample) or by sample values (validation of the
           storage model S9 against the real primitives).

ConcEnv needs neither z3 nor the engine.
"""
import numpy as np

from xobjects.context_cpu import BufferNumpy, BufferByteArray, ContextCpu

try:
    import z3
    from . import symx, symbuf
    from .symx import SymInt, SymBool, T
except Exception:  # pragma: no cover -- replay under a python without z3
    z3 = None
    symx = symbuf = None
    SymInt = SymBool = ()

POISON = 0xA5
KINDS = {"BufferNumpy": BufferNumpy, "BufferByteArray": BufferByteArray}


def is_symbolic(x):
    return SymInt != () and isinstance(x, (SymInt, SymBool))


# --------------------------------------------------------------------------
class RawSym:
    """memory accessor for the independent decoder, symbolic world"""

    def __init__(self, buf):
        self.buf = buf

    def word(self, a):
        cells = self.buf.buffer.read(T(a), 8)
        w = symbuf.clean_word(cells, 8)
        if w is not None:
            return w
        if any(c is symbuf.P for c in cells):
            raise PoisonRead(f"word at {a} was never written")
        if any(isinstance(c, symbuf.W) for c in cells):
            raise PoisonRead(f"torn symbolic word at {a}")
        return int.from_bytes(bytes(cells), "little", signed=True)

    def bytes(self, a, n):
        cells = self.buf.buffer.read(T(a), int(n))
        if any(c is symbuf.P for c in cells):
            raise PoisonRead(f"bytes [{a},+{n}) contain never-written bytes")
        return bytes(symbuf.render(cells))

    def cells(self, a, n):
        return self.buf.buffer.read(T(a), int(n))


class RawConc:
    def __init__(self, buf):
        self.buf = buf

    def word(self, a):
        return int.from_bytes(bytes(self.buf.to_bytearray(int(a), 8)), "little", signed=True)

    def bytes(self, a, n):
        return bytes(self.buf.to_bytearray(int(a), int(n)))


class PoisonRead(Exception):
    pass


# --------------------------------------------------------------------------
class SymEnv:
    symbolic = True

    def __init__(self, e, kind="BufferNumpy"):
        self.e = e
        self.kind = kind
        self.world = symbuf.World()
        self.detail = {}

    # ---- inputs -----------------------------------------------------------
    def int(self, name, lo=None, hi=None):
        return self.e.sym(name, lo, hi)

    def assume(self, c):
        self.e.assume(c)

    def buffer(self, tag="", N=1, alignment=1, grow_step=None, ctx=None, roomy=None):
        return symbuf.arbitrary_buffer(self.e, self.world, tag=tag, N=N, alignment=alignment, grow_step=grow_step, kind=self.kind, ctx=ctx, roomy=roomy)

    def fresh(self, capacity, tag="f", alignment=1, grow_step=None, ctx=None):
        return symbuf.fresh_buffer(self.world, capacity, ctx=ctx, kind=self.kind, alignment=alignment, grow_step=grow_step, name="fresh" + tag)

    def context(self, tag="c"):
        return symbuf.SymCtx(self.world, self.kind, name=tag)

    def reserve(self, buf, base, size):
        """caller contract of an explicit offset: [base, base+size) is inside the buffer and not free"""
        cons = [T(base) >= 0, T(base) + size <= T(buf.capacity)]
        for c in buf.chunks:
            cons.append(z3.Or(T(c.end) <= T(base), T(base) + size <= T(c.start)))
        self.e.assume(z3.And(cons))
        self.world.add_region(base, size)

    # ---- obligations ----------------------------------------------------------
    def check(self, ok, what, detail=None):
        d = dict(self.detail)
        if detail:
            d.update(detail)
        if isinstance(ok, (bool, np.bool_)):
            ok = bool(ok)
            if ok:
                return self.e.prove(True, what)
            return self.e.fail(what, d)
        return self.e.prove(ok, what, d)

    def eq(self, a, b):
        if is_symbolic(a) or is_symbolic(b):
            return symx.mkb(T(a) == T(b))
        return a == b

    def mark(self):
        return self.world.mark()

    def regions_since(self, mark, buf=None):
        return [(b, off, size) for k, b, off, size in self.world.events[mark[1] :] if k == "alloc" and (buf is None or b is buf)]

    def stores_since(self, mark):
        return self.world.journal[mark[0] :]

    def frame(self, mark, allowed, what, detail=None):
        """every store since `mark` lies inside one of `allowed` = [(buffer, off, size)] or inside a
        region allocated since `mark`"""
        allowed = list(allowed) + self.regions_since(mark)
        ok_all = True
        for mem, a, n, _k in self.world.journal[mark[0] :]:
            opts = []
            for b, off, size in allowed:
                if self._mem_of(b, mem):
                    opts.append(z3.And(T(off) <= a, a + n <= T(off) + T(size)))
            ok = self.check(z3.Or(opts) if opts else False, what, detail)
            ok_all = ok_all and ok
        return ok_all

    def _mem_of(self, buf, mem):
        """is `mem` the storage of `buf` (current or an earlier one before growth)?"""
        m = buf.buffer
        seen = set()
        while m is not None and id(m) not in seen:
            if m is mem:
                return True
            seen.add(id(m))
            nxt = None
            for rec in m.log:
                if rec[0] == "cp":
                    nxt = rec[2]
                    break
            m = nxt
        return False

    def no_stores_since(self, mark, what, detail=None):
        """no byte differs from what it was at `mark` (a store that puts back the bytes that were there -- an
        all-or-nothing update restoring its snapshot -- changes nothing)"""
        first = {}
        for mem, a, n, k in self.world.journal[mark[0] :]:
            first.setdefault(id(mem), (mem, k))
        ok = True
        for mem, a, n, k in self.world.journal[mark[0] :]:
            now = mem.read(a, n)
            before = mem.read(a, n, upto=first[id(mem)][1])
            same = all((x is y) or (isinstance(x, int) and isinstance(y, int) and x == y) or (isinstance(x, symbuf.W) and isinstance(y, symbuf.W) and x.term is y.term and x.k == y.k) for x, y in zip(now, before))
            ok = ok and same
        return self.check(ok, what, detail)

    def raw(self, buf):
        return RawSym(buf)

    def pickle_roundtrip(self, objs):
        """pickle.loads(pickle.dumps(objs)) for objects on symbolic buffers (stub S13): the object protocol that pickle
        drives -- __reduce_ex__(4), the classes' own __getstate__/__setstate__ or the instance __dict__, one memo so that
        what was shared stays shared -- is run in Python by copy.deepcopy over the real classes; leaves that pickle
        serialises by value (integers: here solver terms; the buffer's byte array: here the write-log) are copied by
        value; classes are passed by reference, as pickle does for importable classes."""
        import copy

        for o in objs:
            for k in type(o).__mro__:
                if k.__module__.startswith("xobjects") and ("__deepcopy__" in vars(k) or "__copy__" in vars(k)):
                    raise symx.Inconclusive(f"{k.__name__} defines __deepcopy__/__copy__: the copy protocol would differ from pickle's")
        out = copy.deepcopy(list(objs), {})
        seen = set(id(b) for b in self.world.buffers)
        for c in out:
            b = getattr(c, "_buffer", None)
            if b is not None and id(b) not in seen and getattr(b, "_is_symbuffer", False):
                seen.add(id(b))
                b.name = b.name + "~"
                self.world.buffers.append(b)
        return out

    def poison_reads(self):
        return self.world.stats["poison_cells"]

    def reach(self, tag="end"):
        self.e.reach(tag)


# --------------------------------------------------------------------------
class Failure(Exception):
    pass


_rec = {}


def make_recbuffer(kind):
    if kind in _rec:
        return _rec[kind]
    base = KINDS[kind]

    class Rec(base):
        def __init__(self, *a, **k):
            self.regions = []
            self.events = None
            self._depth = 0
            base.__init__(self, *a, **k)

        def allocate(self, size, align=True):
            self._depth += 1
            try:
                off = base.allocate(self, size, align)
            finally:
                self._depth -= 1
            if self._depth == 0:
                self.regions.append((off, size))
                if self.events is not None:
                    self.events.append(("alloc", self, off, size))
            return off

    Rec.__name__ = Rec.__qualname__ = "Rec" + kind  # importable by name: instances can be pickled
    Rec.__module__ = __name__
    globals()[Rec.__name__] = Rec
    _rec[kind] = Rec
    return Rec


class ConcCtx(ContextCpu):
    """a real CPU context whose new_buffer hands out recording buffers of the chosen kind"""

    def __init__(self, env):
        ContextCpu.__init__(self)
        self._env = env

    def _make_buffer(self, capacity):
        b = make_recbuffer(self._env.kind)(capacity=capacity, context=self)
        b.events = self._env.events
        self._env.buffers.append(b)
        return b

    def __getstate__(self):  # the harness back-pointer is not part of the context's state
        st = dict(ContextCpu.__getstate__(self))  # a copy: whatever the library returns is not touched here
        st.pop("_env", None)
        return st


class ConcEnv:
    symbolic = False

    def __init__(self, model=None, kind="BufferNumpy", defaults=None):
        self.model = dict(model or {})
        self.kind = kind
        self.failures = []
        self.events = []
        self.buffers = []
        self.detail = {}
        self.defaults = defaults or {}
        self._ctx = None
        self.unreachable = None

    def int(self, name, lo=None, hi=None):
        v = self.model.get(name)
        if v is None:
            v = self.defaults.get(name, lo if lo is not None else 0)
        return int(v)

    def assume(self, c):
        pass

    def _default_ctx(self):
        if self._ctx is None:
            self._ctx = ConcCtx(self)
        return self._ctx

    def buffer(self, tag="", N=1, alignment=1, grow_step=None, ctx=None, roomy=None):
        cap = self.int("cap" + tag, 0)
        chunks = []
        for i in range(N):
            s, e = self.model.get(f"s{i}{tag}"), self.model.get(f"e{i}{tag}")
            if s is None or e is None:
                d = self.defaults.get("chunks" + tag)
                if d and i < len(d):
                    s, e = d[i]
                else:
                    continue
            chunks.append((int(s), int(e)))
        if "cap" + tag not in self.model and "cap" + tag not in self.defaults:
            cap = max([e for _, e in chunks], default=0)
        gs = grow_step
        if grow_step == "sym":
            gs = self.int("gs" + tag, 1)
        b = make_recbuffer(self.kind)(capacity=cap, context=ctx if ctx is not None else self._default_ctx(), default_alignment=alignment, grow_step=gs)
        # arbitrary history: carve the free list through the public API, poison every byte
        pos = 0
        tofree = []
        for s, e in chunks:
            if s > pos:
                o = b.allocate(s - pos, align=False)
                assert o == pos
            o = b.allocate(e - s, align=False)
            assert o == s, (o, s)
            tofree.append((s, e - s))
            pos = e
        if cap > pos:
            o = b.allocate(cap - pos, align=False)
            assert o == pos
        for o, n in tofree:
            b.free(o, n)
        got = [(c.start, c.end) for c in b.chunks if c.start != c.end]
        if got != [c for c in chunks if c[0] != c[1]]:
            self.unreachable = f"free list {chunks} not reachable, got {got}"
        if self.kind == "BufferByteArray":
            b.buffer[:] = bytes([POISON]) * cap
        else:
            b.buffer[:] = np.int8(POISON - 256)
        b.regions.clear()
        b.events = self.events
        self.buffers.append(b)
        return b

    def fresh(self, capacity, tag="f", alignment=1, grow_step=None, ctx=None):
        b = make_recbuffer(self.kind)(capacity=int(capacity), context=ctx if ctx is not None else self._default_ctx(), default_alignment=alignment, grow_step=grow_step)
        b.events = self.events
        self.buffers.append(b)
        return b

    def context(self, tag="c"):
        return ConcCtx(self)

    def reserve(self, buf, base, size):
        pass

    def check(self, ok, what, detail=None):
        if z3 is not None and isinstance(ok, z3.ExprRef):
            ok = z3.is_true(z3.simplify(ok))
        if not bool(ok):
            self.failures.append((what, detail))
            return False
        return True

    def eq(self, a, b):
        return a == b

    def mark(self):
        return (self._snapshot(), len(self.events))

    def _snapshot(self):
        return [(b, bytes(b.to_bytearray(0, b.capacity))) for b in self.buffers]

    def regions_since(self, mark, buf=None):
        return [(b, off, size) for k, b, off, size in self.events[mark[1] :] if k == "alloc" and (buf is None or b is buf)]

    def frame(self, mark, allowed, what, detail=None):
        allowed = list(allowed) + self.regions_since(mark)
        ok_all = True
        for b, before in mark[0]:
            after = bytes(b.to_bytearray(0, len(before)))
            if after == before:
                continue
            ext = [(int(off), int(off) + int(size)) for bb, off, size in allowed if bb is b]
            for k in range(len(before)):
                if before[k] != after[k] and not any(lo <= k < hi for lo, hi in ext):
                    ok_all = self.check(False, what + f" (byte {k} of {b} changed)", detail) and ok_all
                    break
        return ok_all

    def no_stores_since(self, mark, what, detail=None):
        for b, before in mark[0]:
            if bytes(b.to_bytearray(0, len(before))) != before:
                return self.check(False, what, detail)
        return True

    def raw(self, buf):
        return RawConc(buf)

    def pickle_roundtrip(self, objs):
        """the real thing: pickle.loads(pickle.dumps(objs)); classes are registered so that they are importable"""
        import pickle
        import sys

        mod = sys.modules[__name__]
        for o in objs:
            k = type(o)
            for c in [k] + ([k._XoStruct] if hasattr(k, "_XoStruct") else []):
                c.__module__ = __name__
                c.__qualname__ = c.__name__
                setattr(mod, c.__name__, c)  # looked up by name at dumps and at loads, both just below
        saved = [(b, b.events) for b in self.buffers]
        for b in self.buffers:
            b.events = None
        try:
            out = pickle.loads(pickle.dumps(list(objs)))
        finally:
            for b, ev in saved:
                b.events = ev
        seen = set(id(b) for b in self.buffers)
        for c in out:
            b = getattr(c, "_buffer", None)
            if b is not None and id(b) not in seen:
                seen.add(id(b))
                b.events = self.events
                if hasattr(b.context, "__dict__"):
                    b.context._env = self
                self.buffers.append(b)
        return out

    def poison_reads(self):
        return 0

    def reach(self, tag="end"):
        pass
