"""verdicts, evidence files, replay scripts, known findings"""
import hashlib
import json
import os
import subprocess
import sys
import time

ROOT = os.path.dirname(os.path.dirname(os.path.abspath(__file__)))
# VERIF_OUT: scratch directory for evidence/replays when a seeded change is evaluated in a scratch worktree
# (tools/wt_run.sh); registered commands never set it, so they write /verif/evidence.
_OUT = os.environ.get("VERIF_OUT") or ROOT
EVID = os.path.join(_OUT, "evidence")
REPLAYS = os.path.join(_OUT, "replays")


def repo_root():
    """directory of the xobjects tree that is actually imported (/repo, or the scratch worktree named by VERIF_REPO)"""
    import xobjects

    return os.path.dirname(os.path.dirname(os.path.abspath(xobjects.__file__)))


def in_repo(filename):
    return bool(filename) and os.path.abspath(filename).startswith(repo_root() + os.sep)

KNOWN = os.path.join(ROOT, "known_findings.json")
REPLAY_PY = "/venv/bin/python"

EXIT_OK, EXIT_VIOLATION, EXIT_HARNESS = 0, 1, 3


def tier():
    t = os.environ.get("VERIF_TIER", "quick")
    return t if t in ("quick", "thorough") else "quick"


def seed():
    try:
        return int(os.environ.get("VERIF_SEED", "0"))
    except ValueError:
        return 0


def load_known():
    try:
        with open(KNOWN) as f:
            return json.load(f)
    except FileNotFoundError:
        return {"findings": []}


class Report:
    def __init__(self, pid, level, tier_, technique=""):
        self.pid = pid
        self.level = level
        self.tier = tier_
        self.technique = technique
        self.t0 = time.time()
        self.counts = {}
        self.solver_s = 0.0
        self.hashes = set()
        self.samples = []
        self.configs = []
        self.functions = []
        self.bounds = {}
        self.assumptions = []
        self.stubs = []
        self.notes = []
        self.candidates = []  # (signature, description, replay_text)
        self.reach_missing = []
        self.validated = 0
        self.extra = {}
        self.programs = 0
        self.harness_errors = []
        self.crash_reproduces = False  # a compiled accessor dying on a signal counts as reproduced
        self.max_replays = 8
        self.smt_queries = []
        self.smt_cap = 48

    # ---- collecting -----------------------------------------------------
    def add_engine_result(self, res, expect_reach=("end",)):
        for k, v in res.items():
            if isinstance(v, int) and not isinstance(v, bool) and k != "distinct_nontrivial":
                self.counts[k] = self.counts.get(k, 0) + v
        self.solver_s += res.get("solver_s", 0.0)
        self.hashes.update(res.get("hashes", ()))
        for s in res.get("samples", ()):
            if len(self.samples) < 12:
                self.samples.append(s)
        for n in res.get("notes", ()):
            if len(self.notes) < 30:
                self.notes.append(f"{res.get('name','')}: {n}")
        for q in res.get("smt", ()):
            if len(self.smt_queries) < self.smt_cap:
                self.smt_queries.append(q)
        self.configs.append(res.get("name", ""))
        for tag in expect_reach or ():
            if res.get("reach", {}).get(tag, 0) == 0:
                if res.get("unknown", 0) + res.get("truncated", 0) > 0:
                    # every path of the harness ended inconclusive (solver unknown, cap, or a stub that does not model
                    # what the code uses): the harness decided nothing -- that is inconclusive, not vacuous
                    if len(self.notes) < 30:
                        self.notes.append(f"{res.get('name','')}: no path reached '{tag}', all ended inconclusive")
                    continue
                self.reach_missing.append(f"{res.get('name','')}:{tag}")

    def add_function(self, fn):
        """record qualified name, file and first line of a function that was executed/encoded"""
        import inspect

        try:
            f = inspect.unwrap(fn)
            f = getattr(f, "__func__", f)
            src = inspect.getsourcefile(f)
            line = inspect.getsourcelines(f)[1]
            ent = f"{getattr(f, '__qualname__', getattr(f, '__name__', str(f)))} ({os.path.relpath(src, repo_root()) if in_repo(src) else src}:{line})"
        except Exception:
            ent = str(fn)
        if ent not in self.functions:
            self.functions.append(ent)

    def candidate(self, signature, description, replay_text, kind="violation", history_text=None):
        """history_text: a second replay script that first repeats (concretely) the jobs the finding worker process had
        executed before -- tried only when the plain replay does not reproduce, for violations that need process-wide
        state left behind by earlier operations (a cache keyed too coarsely, a memo on a base class, ...)"""
        self.candidates.append((signature, description, replay_text, history_text))

    def harness_error(self, msg):
        self.harness_errors.append(msg)

    # ---- finishing --------------------------------------------------------
    def _write_replay(self, signature, text):
        os.makedirs(REPLAYS, exist_ok=True)
        h = hashlib.md5((signature + text).encode()).hexdigest()[:10]
        path = os.path.join(REPLAYS, f"{self.pid}-{h}.py")
        with open(path, "w") as f:
            f.write(text)
        return path

    def _run_replay(self, path):
        try:
            p = subprocess.run([REPLAY_PY, path], capture_output=True, text=True, timeout=300, cwd="/tmp")
            return p.returncode, (p.stdout + p.stderr)[-600:]
        except subprocess.TimeoutExpired:
            return -9, "timeout"

    def finish(self):
        known = load_known()
        listed = {f["signature"]: f for f in known.get("findings", []) if f.get("property") == self.pid}
        lines = []
        n_viol = 0
        n_known = 0
        seen = set()
        skipped = 0
        for sig, desc, text, htext in self.candidates:
            if sig in seen:
                continue
            if len(seen) >= self.max_replays:
                skipped += 1
                continue
            seen.add(sig)
            path = self._write_replay(sig, text)
            rc, out = self._run_replay(path)
            self.validated += 1
            if rc == 1 and "VIOLATED" not in out:
                rc = 99  # the replay script itself failed (an uncaught exception also exits 1): not a reproduction
            if rc < 0 and rc != -9 and self.crash_reproduces:
                rc = 1
                desc += " [replay: the compiled accessor crashed with a signal]"
            if rc != 1 and htext:
                # not reproduced from a fresh process: repeat the operations that preceded it in the worker that found it
                hpath = self._write_replay(sig + ":history", htext)
                rc2, out2 = self._run_replay(hpath)
                self.validated += 1
                if rc2 == 1 and "VIOLATED" in out2:
                    rc, out, path = 1, out2, hpath
                    desc += " [not reproduced by the plain replay; reproduced by the second replay script, which first repeats the operations that preceded it in the checking process (process-wide state of the library) or reaches the same pre-state through another legal history (state that depends on how it was reached)]"
            if rc != 1:
                self.harness_errors.append(
                    f"counterexample did not reproduce (replay exit {rc}): {sig} :: {desc} :: {out[-300:]}"
                )
                continue
            ent = listed.get(sig)
            if ent is not None and ent.get("status") == "known":
                n_known += 1
                lines.append(f"KNOWN-FINDING: property={self.pid} {sig}: {ent.get('what', desc)}")
            else:
                n_viol += 1
                lines.append(f"VIOLATION property={self.pid} replay={path}")
                lines.append(f"  signature: {sig}")
                lines.append(f"  what: {desc}")
        if skipped:
            lines.append(f"  ... {skipped} further counterexample signature(s) not replayed (cap {self.max_replays}); see evidence counterexamples")
        if self.smt_queries:
            self.extra["second_solver"] = cross_check(self.smt_queries, self.harness_errors)
        for msg in self.reach_missing:
            self.harness_errors.append(f"vacuous harness (reachability witness missing): {msg}")
        wall = time.time() - self.t0
        c = self.counts
        inconclusive = c.get("unknown", 0) + c.get("truncated", 0) + c.get("fork_caps", 0) + self.extra.get("untranslatable", 0)
        coverage = {
            "evaluations": max(1, c.get("obligations", 0)),
            "distinct_nontrivial": len(self.hashes),
            "rule": self.extra.pop(
                "rule",
                "one evaluation = one proof obligation (path condition /\\ negated goal) sent to z3; "
                "non-trivial = the negated goal still mentions a symbolic variable after z3 simplify; "
                "distinct = md5 of (harness configuration, obligation kind, simplified negated goal)",
            ),
            "samples": self.samples[:12] or [{"note": "no obligation sample recorded"}],
            "states": max(1, c.get("paths", 0)),
            "transitions": max(1, c.get("queries", 0)),
            "traces_validated_against_impl": self.validated,
            "obligations": c.get("obligations", 0),
            "discharged": c.get("discharged", 0),
            "counterexamples": c.get("cex", 0),
            "unknown": c.get("unknown", 0),
            "truncated_paths": c.get("truncated", 0),
            "infeasible_paths_pruned": c.get("aborted", 0),
            "concretisation_forks": c.get("forks", 0),
            "concretisation_caps_hit": c.get("fork_caps", 0),
            "inconclusive_total": inconclusive,
            "solver_s": round(self.solver_s, 2),
            "programs": max(self.programs, 0),
            "disagreements_checked": len(seen),
            "harness_configurations": len(self.configs),
            "functions": self.functions,
            "bounds": self.bounds,
            "stubs_and_models": self.stubs,
            "technique": self.technique,
            "notes": self.notes[:30],
            "known_findings_reported": n_known,
            "exhaustive": False,
        }
        if self.programs == 0:
            coverage.pop("programs")
        coverage.update(self.extra)
        ev = {
            "property_id": self.pid,
            "tier": self.tier,
            "seed": seed(),
            "level": self.level,
            "coverage": coverage,
            "assumptions": self.assumptions,
            "wall_s": round(wall, 2),
            "violations": n_viol,
        }
        os.makedirs(EVID, exist_ok=True)
        with open(os.path.join(EVID, f"{self.pid}.json"), "w") as f:
            json.dump(ev, f, indent=1, default=str)
        for ln in lines:
            print(ln)
        if inconclusive:
            print(f"INCONCLUSIVE property={self.pid} count={inconclusive} (unknown/truncated/capped; see evidence)")
        for msg in self.harness_errors:
            print(f"HARNESS-ERROR property={self.pid} {msg}")
        print(
            f"{self.pid} [{self.tier}] obligations={c.get('obligations',0)} discharged={c.get('discharged',0)} "
            f"cex={c.get('cex',0)} unknown={c.get('unknown',0)} paths={c.get('paths',0)} queries={c.get('queries',0)} "
            f"solver_s={self.solver_s:.1f} wall_s={wall:.1f} violations={n_viol} known={n_known}"
        )
        sys.stdout.flush()
        if n_viol:
            return EXIT_VIOLATION
        if self.harness_errors:
            return EXIT_HARNESS
        return EXIT_OK


def cross_check(queries, errors, tlimit=20):
    """a sample of queries the primary solver (z3-solver 5.x wheel) answered `unsat` is re-run, as SMT-LIB2, on
    the system z3 (4.8.12) and cvc5 binaries; a `sat` answer from either is a harness error, time-outs and
    `unknown` are recorded"""
    import tempfile

    out = {"queries": len(queries), "z3_4.8.12": {"unsat": 0, "sat": 0, "other": 0}, "cvc5": {"unsat": 0, "sat": 0, "other": 0}}
    d = tempfile.mkdtemp(prefix="vx_smt_")
    try:
        for k, q in enumerate(queries):
            f = os.path.join(d, f"q{k}.smt2")
            with open(f, "w") as fh:
                fh.write(q if "(check-sat)" in q else q + "\n(check-sat)\n")
            for name, cmd in (("z3_4.8.12", ["/usr/bin/z3", f"-T:{tlimit}", f]), ("cvc5", ["cvc5", f"--tlimit={tlimit * 1000}", f])):
                try:
                    p = subprocess.run(cmd, capture_output=True, text=True, timeout=tlimit + 10)
                    ans = (p.stdout.strip().splitlines() or ["?"])[0].strip()
                    if "(error" in p.stdout:
                        ans = "error"
                except Exception:
                    ans = "timeout"
                key = ans if ans in ("unsat", "sat") else "other"
                out[name][key] += 1
                if ans == "sat":
                    errors.append(f"second solver {name} answers sat where the primary solver answered unsat (query {k})")
    finally:
        import shutil

        shutil.rmtree(d, ignore_errors=True)
    return out


_HIST = []  # per worker process: indices of the jobs it has executed so far


class _HistFn:
    def __init__(self, fn):
        self.fn = fn

    def __call__(self, ic):
        i, c = ic
        prior = list(_HIST)
        _HIST.append(i)
        return self.fn(c), prior


def run_parallel(fn, configs, workers=None, deadline_s=None, fallback=None, histories=None):
    """map fn over configs in forked workers (each builds its own z3 state).  A worker that dies or hangs must
    not hang the check: results are collected with a deadline; a missing result is replaced by fallback(cfg)
    (an inconclusive result) or raises"""
    import multiprocessing as mp

    if histories is not None:
        # histories[k] := indices of the jobs the worker had executed before job k (for history-aware replays)
        del _HIST[:]
        res = run_parallel(_HistFn(fn), list(enumerate(configs)), workers, deadline_s, (lambda ic: (fallback(ic[1]), [])) if fallback else None)
        histories[:] = [h for _, h in res]
        return [r for r, _ in res]
    workers = workers or min(16, os.cpu_count() or 4)
    if len(configs) <= 1 or workers <= 1:
        return [fn(c) for c in configs]
    if deadline_s is None:
        deadline_s = 900 if tier() == "quick" else 5400
    ctx = mp.get_context("fork")
    pool = ctx.Pool(min(workers, len(configs)))
    t0 = time.time()
    try:
        handles = [pool.apply_async(fn, (c,)) for c in configs]
        out = []
        for c, h in zip(configs, handles):
            left = max(1.0, deadline_s - (time.time() - t0))
            try:
                out.append(h.get(timeout=left))
            except mp.TimeoutError:
                if fallback is None:
                    raise RuntimeError(f"job did not finish within {deadline_s} s: {str(c)[:200]}")
                out.append(fallback(c))
        return out
    finally:
        pool.terminate()
        pool.join()
